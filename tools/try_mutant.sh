#!/bin/bash
# usage: try_mutant.sh <patch.diff> <property> [tier]  — applies the patch to /repo, runs the check, reverts
patch=$1; prop=$2; tier=${3:-quick}
cd /repo || exit 2
git diff --quiet || { echo "/repo is dirty"; exit 2; }
git apply "$patch" || { echo "patch does not apply"; exit 2; }
cd /verif; start=$(date +%s)
./check $prop $tier > /tmp/try_mutant.out 2>&1; rc=$?
end=$(date +%s)
git -C /repo checkout -- .
grep -E "violated|VIOLATION|HARNESS|expected:|observed:" /tmp/try_mutant.out | cut -c1-260 | head -6
echo "exit=$rc secs=$((end-start))"
