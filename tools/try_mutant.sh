#!/bin/bash
# usage: try_mutant.sh <patch.diff> <property> [tier]  — applies the patch to the repository, runs the check, reverts.
# Inside `vp run --with-repo` the repository is the snapshot $VP_RUN_REPO and the checks are the snapshot's own.
patch=$(realpath "$1"); prop=$2; tier=${3:-quick}
repo=${VP_RUN_REPO:-/repo}
verif=$(cd "$(dirname "$0")/.." && pwd)
out=$(mktemp /tmp/try_mutant.XXXXXX)
cd "$repo" || exit 2
git diff --quiet || { echo "$repo is dirty"; exit 2; }
git apply "$patch" || { echo "patch does not apply"; exit 2; }
cd "$verif"; start=$(date +%s)
# evidence files describe runs on the unchanged tree: keep them as they were
evsave=$(mktemp -d /tmp/try_mutant_ev.XXXXXX); cp -p evidence/*.json $evsave/ 2>/dev/null
./check $prop $tier > $out 2>&1; rc=$?
end=$(date +%s)
git -C "$repo" checkout -- .
git -C "$repo" clean -fdq -- src   # a patch may add files
cp -p $evsave/*.json evidence/ 2>/dev/null; rm -rf $evsave
grep -E "violated|VIOLATION|HARNESS|expected:|observed:" $out | cut -c1-260 | head -6
rm -f $out
echo "exit=$rc secs=$((end-start))"
