#!/bin/bash
# RUSTC_WRAPPER for the sync-point engine (Engine B', DESIGN §3.2b): cargo calls `wrapper rustc args...`.
# The library crate is compiled unoptimised with a call to `mcount` at every function entry
# (including the std generics it instantiates: Mutex::lock, AtomicUsize::fetch_add, LocalKey::with, ...);
# the harness defines `mcount` and turns entries of synchronisation functions into scheduling points.
rustc="$1"; shift
name=""
prev=""
for a in "$@"; do
  if [ "$prev" = "--crate-name" ]; then name="$a"; fi
  prev="$a"
done
case "$name" in
  pairing_plus)
    exec "$rustc" "$@" -Zinstrument-mcount -Copt-level=3 -Zinline-mir=no -Zmerge-functions=disabled -Cllvm-args=-inline-threshold=-1000000 -Cllvm-args=-inlinehint-threshold=-1000000 -Cdebug-assertions=off -Coverflow-checks=off -Cforce-frame-pointers=yes ;;
  pp_sim)
    exec "$rustc" "$@" --cfg pp_mcount -Cforce-frame-pointers=yes ;;
  *)
    exec "$rustc" "$@" ;;
esac
