#!/bin/bash
# RUSTC_WRAPPER for the sync-point engine (Engine B', DESIGN §3.2b): cargo calls `wrapper rustc args...`.
# The library crate and the harness crate (which holds the instantiations of the library's generic
# functions) are compiled with inlining disabled and a call to `mcount` at every function entry
# (including the std generics it instantiates: Mutex::lock, AtomicUsize::fetch_add, LocalKey::with, ...);
# the harness defines `mcount` and turns entries of synchronisation functions into scheduling points.
rustc="$1"; shift
name=""
prev=""
for a in "$@"; do
  if [ "$prev" = "--crate-name" ]; then name="$a"; fi
  prev="$a"
done
# PP_MC_MODE=fast   (default): inlining is suppressed enough for Mutex/RwLock/Once/LocalKey/guard-drop
#                    entries to survive; single-use helpers are still inlined; about 5x slower than release
# PP_MC_MODE=atomic : inlining fully suppressed so that even AtomicX::load/store/compare_exchange keep
#                    their entry hook; about 25x slower; used only for trees that mention atomics
# (cargo does not see this variable: the two modes use different --target-dir's)
if [ "${PP_MC_MODE:-fast}" = "atomic" ]; then
  INL="-Cllvm-args=-inline-threshold=-1000000 -Cllvm-args=-inlinehint-threshold=-1000000"
else
  INL="-Cllvm-args=-inline-threshold=-10000"
fi
case "$name" in
  pairing_plus|pp_sim)
    exec "$rustc" "$@" -Zinstrument-mcount -Copt-level=3 -Zinline-mir=no -Zmerge-functions=disabled $INL -Cdebug-assertions=off -Coverflow-checks=off -Cforce-frame-pointers=yes ;;
  mchook)
    exec "$rustc" "$@" --cfg pp_mcount -Cforce-frame-pointers=yes ;;
  *)
    exec "$rustc" "$@" ;;
esac
