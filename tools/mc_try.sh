#!/bin/bash
# usage: mc_try.sh <patch> <seed> <nshards> <secs>  — run Engine B' shards against a patched /repo, report per-shard outcome
patch=$1; seed=$2; n=$3; secs=$4
cd /repo && git diff --quiet || { echo dirty; exit 2; }
[ -n "$patch" ] && [ "$patch" != "-" ] && { git apply $patch || exit 2; }
cd /verif/sim && RUSTC_WRAPPER=/verif/tools/rustc_mc_wrapper.sh CARGO_NET_OFFLINE=true cargo +nightly build --release --offline --target-dir /verif/target/mc 2>&1 | grep -E "^error|Finished" | head -3
rm -rf /tmp/mcr /tmp/mc_*.json; for sh in $(seq 0 $((n-1))); do timeout 600 /verif/target/mc/release/pp-sim sched --focus c20 --seed $seed --shard $sh --of $n --runs 100000 --secs $secs --out /tmp/mc_$sh.json --replay-dir /tmp/mcr > /tmp/mc_$sh.log 2>&1 & done; wait
git -C /repo checkout -- .
for sh in $(seq 0 $((n-1))); do python3 - <<P
import json
try:
    j=json.load(open('/tmp/mc_$sh.json'))
    v=j.get('violation')
    print($sh, 'runs',j.get('runs'),'wall',round(j.get('wall_s',0)), 'viol', v and (v['detail']['invariant'][:40], v['detail']['op'], 'repro',v['reproduced_in_fresh_process'],'prelude',v.get('prelude_scenarios_needed'), 'min', v.get('minimised_threads'), v.get('minimised_ops')), j.get('harness_error'), j.get('stalled') and j['stalled']['what'][:80], {k:v for k,v in j.get('counters',{}).items() if 'sync' in k or 'block' in k})
except Exception as e: print($sh,'ERR',e)
P
done
