#!/bin/bash
# usage: confirm_mutant.sh <worktree> <demo test name, e.g. demo_c19a>
# Confirms, in the scratch worktree: (1) demo fails with the change, (2) demo passes without it,
# (3) the pinned suite (minus the 3 always-failing tests) passes with the change.
# (git stash is shared between worktrees: use patch files instead)
wt=$1; demo=$2
cd "$wt" || exit 2
export CARGO_NET_OFFLINE=true
log=$wt/CONFIRM.log; : > $log
patch=$wt/OUT/patch.diff
git checkout -q -- src; git apply $patch || { echo "PATCH DOES NOT APPLY" | tee -a $log; exit 2; }
echo "== demo with change" >> $log
cargo test --offline --test $demo >> $log 2>&1; with=$?
git apply -R $patch
echo "== demo without change" >> $log
cargo test --offline --test $demo >> $log 2>&1; without=$?
git apply $patch
echo "== suite with change" >> $log
cargo test --offline --lib -- --test-threads 16 --skip bls12_engine_tests --skip g2_curve_tests --skip fq12_field_tests >> $log 2>&1; suite=$?
res=$(grep -E "^test result" $log | tail -1)
echo "RESULT demo_with_change_exit=$with demo_without_change_exit=$without suite_exit=$suite :: $res" | tee -a $log
