#!/bin/bash
# Applies every stored property-breaking change (seeded/*/patch.diff, seeded/own/**/*.diff, extra dirs given as
# arguments) to /repo in turn, runs the quick check of its property, reverts, and prints one line each.
# Negative controls (neg_*, n10_*, m05_*) must stay silent.
verif=$(cd "$(dirname "$0")/.." && pwd)
out=${OUT:-$verif/regress.log}; : > $out
run() { # patch prop name expect
  local patch=$1 prop=$2 name=$3 expect=$4
  # ONLY=C20 (or "C19|C02") restricts the run to some properties
  if [ -n "$ONLY" ] && ! echo "$prop" | grep -Eq "^($ONLY)$"; then return; fi
  # FROM=c20i skips stored changes whose name sorts before it
  if [ -n "$FROM" ] && [[ "$name" < "$FROM" ]]; then return; fi
  full=$(timeout 1800 $verif/tools/try_mutant.sh $patch $prop quick 2>&1 | tr '\n' ' ')
  rc=$(echo "$full" | grep -o "exit=[0-9]*" | tail -1)
  res=$(echo "$full" | cut -c1-200)
  verdict=MISSED; [ "$rc" = "exit=1" ] && verdict=caught; [ "$rc" = "exit=2" ] && verdict=HARNESS-ERROR
  if [ "$expect" = "silent" ]; then [ "$rc" = "exit=0" ] && verdict="silent (as required)" || verdict="FALSE ALARM ($rc)"; fi
  echo "$name $prop $verdict :: $(echo "$res" | cut -c1-150)" | tee -a $out
}
for d in $verif/seeded/c*/ "$@"; do
  [ -f $d/patch.diff ] || [ -f $d/OUT/patch.diff ] || continue
  p=$d/patch.diff; [ -f $p ] || p=$d/OUT/patch.diff
  n=$(basename $d); prop=C${n:1:2}
  run $p $prop $n caught
done
for p in $verif/seeded/own/*.diff; do n=$(basename $p .diff); e=caught; case $n in neg_*) e=silent;; esac; run $p C20 own/$n $e; done
for p in $verif/seeded/own/c19/*.diff; do n=$(basename $p .diff); e=caught; case $n in n10_*|m05_*) e=silent;; esac; run $p C19 own/c19/$n $e; done
echo "== summary"; grep -c " caught " $out; grep -E "MISSED|HARNESS|FALSE" $out
