#!/bin/bash
# Determinism campaign (DESIGN §6.4): every seed is run in several separate processes and
# the digests are compared. Usage: determinism.sh <first seed> <number of seeds>
# Engine A: --runs 300 --no-sweep, workers 1 and 16, twice each (4 processes per seed).
# Engine B: 12 scenarios of shard 0-of-1 per seed, 2 processes per seed (c20 and wnaf focus).
first=${1:-1000}; n=${2:-200}
BIN=/verif/target/release/pp-sim
W=/verif/target/work/determinism; mkdir -p $W
bad=0; total=0
one() { # seed
  s=$1
  for tag in a1 a16 b1 b16; do
    w=1; [ "${tag:1}" = "16" ] && w=16
    $BIN io --seed $s --runs 300 --no-sweep --workers $w --digest-only --out $W/io-$s-$tag.json --replay-dir $W/r > /dev/null 2>&1
  done
  d=$(for tag in a1 a16 b1 b16; do python3 -c "import json;print(json.load(open('$W/io-$s-$tag.json'))['search']['digest'])"; done | sort -u | wc -l)
  e=0
  for focus in c20 wnaf; do
    for k in 1 2; do $BIN sched --focus $focus --seed $s --shard 0 --of 1 --runs 12 --out $W/sc-$s-$focus-$k.json --replay-dir $W/r > /dev/null 2>&1; done
    x=$(for k in 1 2; do python3 -c "import json;print(json.load(open('$W/sc-$s-$focus-$k.json'))['digest'])"; done | sort -u | wc -l)
    [ "$x" != "1" ] && e=1
  done
  if [ "$d" != "1" ] || [ "$e" != "0" ]; then echo "NONDETERMINISTIC seed $s (io distinct digests: $d, sched mismatch: $e)"; else echo "ok $s"; fi
  rm -f $W/io-$s-* $W/sc-$s-*
}
export -f one; export BIN W
seq $first $((first+n-1)) | xargs -P 8 -I{} bash -c 'one {}' > $W/result.txt
echo "seeds: $(wc -l < $W/result.txt)  nondeterministic: $(grep -c NONDET $W/result.txt)"
grep NONDET $W/result.txt | head
