//! Engine B — caller threads under a seeded token-passing scheduler (DESIGN §3.2).
//! Decides C20 (focus "c20") and the history / sharing / window clauses of C02 (focus "wnaf").

use crate::json::J;
use crate::ops::*;
use crate::spool::spools;
use crate::tok::{self, Sim};
use crate::util::{hash_bytes, hex, Digest, Rng};
use pairing_plus::bls12_381::{FrRepr, G1, G2};
use pairing_plus::{CurveProjective, Wnaf};
use std::collections::{BTreeMap, HashMap};
use std::panic::{catch_unwind, AssertUnwindSafe};
use std::sync::Arc;
use std::sync::Mutex;
use std::time::Duration;

// ---------------------------------------------------------------- plan

#[derive(Clone, Debug, PartialEq, Default)]
pub struct ThreadPlan {
    pub ops: Vec<Op>,
    /// harness-raised panic after this op index (thread dies at an operation boundary)
    pub die_after: Option<usize>,
    /// not scheduled again after this op index until every other thread has finished
    pub stall_after: Option<usize>,
    /// stops (returns normally, dropping its views) after this op index
    pub exit_after: Option<usize>,
    /// function-entry counts at which the thread is preempted wherever it is (instrumented build only)
    pub preempt_at: Vec<u64>,
}

#[derive(Clone, Debug, PartialEq)]
pub enum Schedule {
    Explicit(Vec<usize>),
    Random(u64),
    /// priority schedule with `d` random priority change points (PCT-like)
    Pct(u64, usize),
    RoundRobin(usize),
    Sequential,
}

#[derive(Clone, Debug, PartialEq)]
pub struct SchedPlan {
    pub focus: String,
    pub threads: Vec<ThreadPlan>,
    /// shared base-table views: (group, point index, num_scalars choice index)
    pub views_b: Vec<(u8, usize, usize)>,
    /// shared digit-string views: (group, scalar index)
    pub views_s: Vec<(u8, usize)>,
    pub nshared_ctx: usize,
    pub yield_mask: u32,
    pub schedule: Schedule,
}

fn opt_json(o: &Option<usize>) -> J {
    match o {
        None => J::Null,
        Some(v) => J::u(*v),
    }
}
fn opt_from(j: Option<&J>) -> Option<usize> {
    j.and_then(|v| v.as_usize())
}

impl SchedPlan {
    pub fn to_json(&self) -> J {
        let sched = match &self.schedule {
            Schedule::Explicit(v) => J::obj().set("kind", J::s("explicit")).set("order", J::Arr(v.iter().map(|x| J::u(*x)).collect())),
            Schedule::Random(s) => J::obj().set("kind", J::s("random")).set("seed", J::Int(*s as i64)),
            Schedule::Pct(s, d) => J::obj().set("kind", J::s("pct")).set("seed", J::Int(*s as i64)).set("depth", J::u(*d)),
            Schedule::RoundRobin(q) => J::obj().set("kind", J::s("round_robin")).set("quantum", J::u(*q)),
            Schedule::Sequential => J::obj().set("kind", J::s("sequential")),
        };
        J::obj()
            .set("engine", J::s("sched"))
            .set("focus", J::s(&self.focus))
            .set(
                "threads",
                J::Arr(
                    self.threads
                        .iter()
                        .map(|t| {
                            J::obj()
                                .set("ops", J::Arr(t.ops.iter().map(|o| o.to_json()).collect()))
                                .set("die_after", opt_json(&t.die_after))
                                .set("stall_after", opt_json(&t.stall_after))
                                .set("exit_after", opt_json(&t.exit_after))
                                .set("preempt_at_function_entry", J::Arr(t.preempt_at.iter().map(|x| J::Int(*x as i64)).collect()))
                        })
                        .collect(),
                ),
            )
            .set("views_b", J::Arr(self.views_b.iter().map(|v| J::Arr(vec![J::u(v.0 as usize), J::u(v.1), J::u(v.2)])).collect()))
            .set("views_s", J::Arr(self.views_s.iter().map(|v| J::Arr(vec![J::u(v.0 as usize), J::u(v.1)])).collect()))
            .set("shared_contexts", J::u(self.nshared_ctx))
            .set("yield_mask", J::u(self.yield_mask as usize))
            .set("schedule", sched)
    }
    pub fn from_json(j: &J) -> Result<SchedPlan, String> {
        let mut threads = vec![];
        for t in j.arr_of("threads")? {
            let mut ops = vec![];
            for o in t.arr_of("ops")? {
                ops.push(Op::from_json(o)?);
            }
            let preempt_at = t.get("preempt_at_function_entry").and_then(|a| a.as_arr()).map(|a| a.iter().filter_map(|x| x.as_i64()).map(|x| x as u64).collect()).unwrap_or_default();
            threads.push(ThreadPlan { ops, die_after: opt_from(t.get("die_after")), stall_after: opt_from(t.get("stall_after")), exit_after: opt_from(t.get("exit_after")), preempt_at });
        }
        let mut views_b = vec![];
        for v in j.arr_of("views_b")? {
            let a = v.as_arr().ok_or("views_b")?;
            views_b.push((a[0].as_usize().ok_or("g")? as u8, a[1].as_usize().ok_or("p")?, a[2].as_usize().ok_or("n")?));
        }
        let mut views_s = vec![];
        for v in j.arr_of("views_s")? {
            let a = v.as_arr().ok_or("views_s")?;
            views_s.push((a[0].as_usize().ok_or("g")? as u8, a[1].as_usize().ok_or("k")?));
        }
        let s = j.get("schedule").ok_or("schedule")?;
        let schedule = match s.str_of("kind")? {
            "explicit" => Schedule::Explicit(s.arr_of("order")?.iter().filter_map(|x| x.as_usize()).collect()),
            "random" => Schedule::Random(s.get("seed").and_then(|x| x.as_i64()).unwrap_or(0) as u64),
            "pct" => Schedule::Pct(s.get("seed").and_then(|x| x.as_i64()).unwrap_or(0) as u64, s.usize_of("depth")?),
            "round_robin" => Schedule::RoundRobin(s.usize_of("quantum")?),
            "sequential" => Schedule::Sequential,
            other => return Err(format!("bad schedule kind {}", other)),
        };
        Ok(SchedPlan {
            focus: j.get("focus").and_then(|f| f.as_str()).unwrap_or("c20").to_string(),
            threads,
            views_b,
            views_s,
            nshared_ctx: j.usize_of("shared_contexts")?,
            yield_mask: j.usize_of("yield_mask")? as u32,
            schedule,
        })
    }
}

// ---------------------------------------------------------------- results

#[derive(Clone, Debug)]
pub struct SViolation {
    pub invariant: String,
    pub thread: usize,
    pub op_index: usize,
    pub op: String,
    pub expected: String,
    pub observed: String,
}
impl SViolation {
    pub fn class(&self) -> String {
        let kind = self.op.split(' ').next().unwrap_or("");
        format!("{}|{}", self.invariant, kind).replace(' ', "_")
    }
    pub fn to_json(&self) -> J {
        J::obj()
            .set("invariant", J::s(&self.invariant))
            .set("thread", J::u(self.thread))
            .set("op_index", J::u(self.op_index))
            .set("op", J::s(&self.op))
            .set("expected", J::s(&self.expected))
            .set("observed", J::s(&self.observed))
    }
}

#[derive(Clone, Debug)]
pub enum Outcome {
    Image(Vec<u8>),
    LibPanic(String),
    HarnessDied,
}

pub struct SRun {
    pub violation: Option<SViolation>,
    /// operations and their bit images, thread by thread (independent of the schedule on a tree
    /// where the property holds)
    pub digest: u64,
    /// the scheduling decisions actually taken
    pub trace_digest: u64,
    pub decisions: Vec<usize>,
    pub ops_run: usize,
    pub yields: u64,
    pub counters: crate::io::Counters,
    pub object_histories: Vec<u64>,
    pub pair_kinds: Vec<u64>,
    pub log: Vec<String>,
    /// Some(label) if the token did not come back (thread stuck inside a call)
    pub stalled: Option<String>,
}

fn short(b: &[u8]) -> String {
    if b.len() <= 64 {
        hex(b)
    } else {
        format!("{}..({} bytes, hash {:016x})", hex(&b[..48]), b.len(), hash_bytes(b))
    }
}

// ---------------------------------------------------------------- reference images

pub struct Refs {
    pub map: HashMap<String, Outcome>,
    pub computed: usize,
}
impl Refs {
    pub fn new() -> Refs {
        Refs { map: HashMap::new(), computed: 0 }
    }
}

/// operations whose first argument selects a wNAF context (0 = private, i = shared i-1)
pub fn is_ctx_op(name: &str) -> bool {
    let n = name.strip_prefix("g1_").or_else(|| name.strip_prefix("g2_")).unwrap_or("");
    matches!(n, "wnaf_bs" | "wnaf_sb" | "wnaf_bs_multi" | "wnaf_sb_multi" | "wnaf_half" | "wnaf_half_b" | "wnaf_poison")
}

fn o_needs_prepared(op: &Op) -> bool {
    op.k == "miller" || op.k == "x_cb_pairing"
}

fn view_key(plan: &SchedPlan, op: &Op) -> String {
    // view operations depend on the plan's view definitions: make the key self-contained
    let name = op.k.as_str();
    if name.ends_with("wnaf_view_b") {
        let g = if name.starts_with("g1_") { 1 } else { 2 };
        let vs: Vec<&(u8, usize, usize)> = plan.views_b.iter().filter(|v| v.0 == g).collect();
        if vs.is_empty() {
            return format!("{} [no view]", op.key());
        }
        let v = vs[op.arg(0) % vs.len()];
        return format!("{} k{} [view base p{} n{}]", op.k, lt255_index(op.arg(1)), v.1, v.2);
    }
    if name.ends_with("wnaf_view_s") {
        let g = if name.starts_with("g1_") { 1 } else { 2 };
        let vs: Vec<&(u8, usize)> = plan.views_s.iter().filter(|v| v.0 == g).collect();
        if vs.is_empty() {
            return format!("{} [no view]", op.key());
        }
        let v = vs[op.arg(0) % vs.len()];
        return format!("{} p{} [view scalar k{}]", op.k, op.arg(1), v.1);
    }
    if is_ctx_op(name) {
        // which context is used must not matter: drop the context selector from the key
        let mut o = op.clone();
        if !o.a.is_empty() {
            o.a[0] = 0;
        }
        return o.key();
    }
    if name.ends_with("wnaf_raw") {
        // reuse of the per-thread buffers must not matter
        let mut o = op.clone();
        if o.a.len() > 3 {
            o.a[3] &= !1; // bit 0 = reuse the buffers; the other bits select the scalar
        }
        return o.key();
    }
    op.key()
}

/// run `f` with per-thread objects whose views are staged from the plan's definitions
fn with_objs<R>(plan: &SchedPlan, nthreads: usize, f: impl FnOnce(Vec<ThreadObjs>) -> R) -> R {
    let sc = &spools().scalars;
    let mut cb1: Vec<Ctx<G1>> = vec![];
    let mut cb2: Vec<Ctx<G2>> = vec![];
    let mut cs1: Vec<Ctx<G1>> = vec![];
    let mut cs2: Vec<Ctx<G2>> = vec![];
    for v in &plan.views_b {
        if v.0 == 1 {
            cb1.push(Wnaf::new());
        } else {
            cb2.push(Wnaf::new());
        }
    }
    for v in &plan.views_s {
        if v.0 == 1 {
            cs1.push(Wnaf::new());
        } else {
            cs2.push(Wnaf::new());
        }
    }
    let d1: Vec<&(u8, usize, usize)> = plan.views_b.iter().filter(|v| v.0 == 1).collect();
    let d2: Vec<&(u8, usize, usize)> = plan.views_b.iter().filter(|v| v.0 != 1).collect();
    let e1: Vec<&(u8, usize)> = plan.views_s.iter().filter(|v| v.0 == 1).collect();
    let e2: Vec<&(u8, usize)> = plan.views_s.iter().filter(|v| v.0 != 1).collect();
    let sb1: Vec<_> = cb1.iter_mut().zip(d1.iter()).map(|(c, d)| c.base(G1::proj(d.1 % G1::nsub()), NUM_SCALARS_CHOICES[d.2 % NUM_SCALARS_CHOICES.len()])).collect();
    let sb2: Vec<_> = cb2.iter_mut().zip(d2.iter()).map(|(c, d)| c.base(G2::proj(d.1 % G2::nsub()), NUM_SCALARS_CHOICES[d.2 % NUM_SCALARS_CHOICES.len()])).collect();
    let ss1: Vec<_> = cs1.iter_mut().zip(e1.iter()).map(|(c, d)| c.scalar(FrRepr(sc[lt255_index(d.1)].l))).collect();
    let ss2: Vec<_> = cs2.iter_mut().zip(e2.iter()).map(|(c, d)| c.scalar(FrRepr(sc[lt255_index(d.1)].l))).collect();
    let mut objs = vec![];
    for _ in 0..nthreads {
        let mut t = ThreadObjs::new();
        t.o1.views_b = sb1.iter().map(|s| s.shared()).collect();
        t.o2.views_b = sb2.iter().map(|s| s.shared()).collect();
        t.o1.views_s = ss1.iter().map(|s| s.shared()).collect();
        t.o2.views_s = ss2.iter().map(|s| s.shared()).collect();
        objs.push(t);
    }
    f(objs)
}

fn eval_caught(op: &Op, sh: &Shared, rs: &RunShared, tl: &mut ThreadObjs) -> (Outcome, Vec<Claim>) {
    // the calling thread may hold a pending unpark token (left by a channel, an executor, its own
    // check-then-park loop): per-thread std state that belongs to the caller and that no library call
    // may depend on
    std::thread::current().unpark();
    match catch_unwind(AssertUnwindSafe(|| eval(op, sh, rs, tl))) {
        Ok(o) => (Outcome::Image(o.image), o.claims),
        Err(e) => {
            if e.downcast_ref::<HarnessPanic>().is_some() {
                (Outcome::HarnessDied, vec![])
            } else {
                let msg = if let Some(s) = e.downcast_ref::<&str>() {
                    s.to_string()
                } else if let Some(s) = e.downcast_ref::<String>() {
                    s.clone()
                } else {
                    "panic".to_string()
                };
                (Outcome::LibPanic(msg), vec![])
            }
        }
    }
}

// ---- watchdog for isolated evaluations: a library call that never returns even when it runs alone on
// a fresh thread (a lock held across a call-back that re-enters the library, a wait nobody ends) would
// block the harness for ever. The watchdog turns it into a stall report and exit code 4, like a
// stall inside a scenario.

/// (replay path, result path, property, seed, gen cfg as JSON text): where to report; set by the shard driver
pub static REF_STALL_SINK: Mutex<Option<(String, String, String, u64, String)>> = Mutex::new(None);
/// the isolated evaluation in flight: (deadline, single-operation plan as JSON text, operation key)
static REF_WATCH: Mutex<Option<(std::time::Instant, String, String)>> = Mutex::new(None);

fn ref_watchdog_start() {
    static STARTED: std::sync::Once = std::sync::Once::new();
    STARTED.call_once(|| {
        std::thread::Builder::new()
            .name("ref-watchdog".into())
            .spawn(|| loop {
                std::thread::sleep(Duration::from_millis(500));
                let due = REF_WATCH.lock().ok().and_then(|g| g.as_ref().filter(|w| std::time::Instant::now() > w.0).map(|w| (w.1.clone(), w.2.clone())));
                if let Some((plan_json, key)) = due {
                    let what = format!("the isolated evaluation of `{}` (one thread, nothing else running) never returned", key);
                    eprintln!("STALL: {}", what);
                    if let Ok(g) = REF_STALL_SINK.lock() {
                        if let Some((replay, result, property, seed, cfgj)) = g.as_ref() {
                            let v = format!(
                                "{{\"invariant\":\"c20/no-deadlock-every-call-returns\",\"thread\":0,\"op_index\":0,\"op\":{:?},\"expected\":\"every library call returns\",\"observed\":{:?}}}",
                                key, what
                            );
                            let rj = format!(
                                "{{\"format\":1,\"property\":{:?},\"engine\":\"sched\",\"build\":\"plain\",\"seed\":{},\"run_index\":-1,\"gen_cfg\":{},\"violation\":{},\"plan\":{},\"original_plan\":{},\"prelude_run_indices\":[]}}",
                                property, seed, cfgj, v, plan_json, plan_json
                            );
                            let _ = std::fs::write(replay, rj);
                            let res = format!("{{\"stalled\":{{\"replay\":{:?},\"what\":{:?},\"index\":-1,\"detail\":{}}}}}", replay, what, v);
                            let _ = std::fs::write(result, res);
                        }
                    }
                    std::process::exit(4);
                }
            })
            .ok();
    });
}

/// evaluate every not-yet-known operation of the plan in isolation: fresh OS thread, fresh
/// contexts, nothing else running, the reference copy of the shared tables
fn ensure_refs(plan: &SchedPlan, refs: &mut Refs, ref_shared: &Shared) {
    let mut missing: Vec<(String, Op)> = vec![];
    for t in &plan.threads {
        for op in &t.ops {
            let k = view_key(plan, op);
            if !refs.map.contains_key(&k) && !missing.iter().any(|m| m.0 == k) {
                missing.push((k, op.clone()));
            }
        }
    }
    if missing.is_empty() {
        return;
    }
    let mut results: Vec<(String, Outcome)> = vec![];
    for (k, op) in &missing {
        // true isolation: a brand-new OS thread (fresh thread-locals), brand-new contexts and
        // views, the reference copy of the shared tables, nothing else running
        ref_watchdog_start();
        {
            let single = SchedPlan {
                focus: plan.focus.clone(),
                threads: vec![ThreadPlan { ops: vec![op.clone()], ..Default::default() }],
                views_b: plan.views_b.clone(),
                views_s: plan.views_s.clone(),
                nshared_ctx: plan.nshared_ctx,
                yield_mask: 0,
                schedule: Schedule::Sequential,
            };
            let secs = std::env::var("PP_SIM_STALL_SECS").ok().and_then(|v| v.parse().ok()).unwrap_or(120u64);
            *REF_WATCH.lock().unwrap() = Some((std::time::Instant::now() + Duration::from_secs(secs), single.to_json().to_string(), k.clone()));
        }
        let r = std::thread::scope(|s| {
            s.spawn(|| {
                let rs = RunShared::new(0, o_needs_prepared(op));
                let mut o = op.clone();
                if is_ctx_op(&o.k) && !o.a.is_empty() {
                    o.a[0] = 0;
                }
                if o.k.ends_with("wnaf_raw") && o.a.len() > 3 {
                    o.a[3] &= !1;
                }
                with_objs(plan, 1, |mut objs| eval_caught(&o, ref_shared, &rs, &mut objs[0]).0)
            })
            .join()
            .unwrap()
        });
        *REF_WATCH.lock().unwrap() = None;
        results.push((k.clone(), r));
    }
    for (k, r) in results {
        refs.computed += 1;
        refs.map.insert(k, r);
    }
}

// ---------------------------------------------------------------- execution

struct Chooser {
    kind: Schedule,
    rng: Rng,
    pos: usize,
    prio: Vec<u64>,
    change_at: Vec<usize>,
    rr_cur: usize,
    rr_left: usize,
    last: Option<usize>,
    streak: u64,
    demotions: u64,
    style: u64,
}
impl Chooser {
    fn new(s: &Schedule, n: usize) -> Chooser {
        let seed = match s {
            Schedule::Random(x) | Schedule::Pct(x, _) => *x,
            _ => 0,
        };
        let mut rng = Rng::new(seed ^ 0x5c4e_d);
        let mut prio: Vec<u64> = (0..n).map(|_| rng.next() | (1 << 40)).collect();
        let mut change_at = vec![];
        if let Schedule::Pct(_, d) = s {
            for _ in 0..*d {
                // log-uniform over 1 .. 2^17 decisions: runs differ by orders of magnitude in length
                let e = rng.below(18);
                change_at.push(rng.below(1usize << e).max(1) + if e > 0 { (1usize << e) / 2 } else { 0 });
            }
        } else {
            prio.iter_mut().for_each(|p| *p = 0);
        }
        let style = std::env::var("PP_SIM_STYLE").ok().and_then(|v| v.parse().ok()).unwrap_or([0u64, 0, 1, 2][(rng.next() % 4) as usize]);
        Chooser { kind: s.clone(), rng, pos: 0, prio, change_at, rr_cur: 0, rr_left: 0, last: None, streak: 0, demotions: 0, style }
    }
    /// returns (thread, quantum): quantum = number of synchronisation points the thread may
    /// pass before it has to yield (only meaningful in the function-entry-instrumented build)
    fn pick(&mut self, runnable: &[usize]) -> (usize, u32) {
        let i = self.pos;
        self.pos += 1;
        if i > 60_000 && !matches!(self.kind, Schedule::Explicit(_)) {
            // bounded unfairness: a schedule that starves a thread another one spins on would never end
            return (runnable[self.rng.below(runnable.len())], 64);
        }
        match &self.kind {
            Schedule::Explicit(v) => {
                if i < v.len() && runnable.contains(&(v[i] % 64)) {
                    (v[i] % 64, (v[i] / 64) as u32 + 1)
                } else {
                    (runnable[0], 1)
                }
            }
            Schedule::Random(_) => {
                let t = runnable[self.rng.below(runnable.len())];
                // quantum style is fixed per scenario: fine (a switch after almost every
                // synchronisation point: hits windows one or two points wide), coarse (log-uniform
                // up to 2^13: lets a thread run through a whole critical section or table copy of
                // thousands of atomic accesses while another is parked mid-way), or a mixture
                let style = self.style;
                let fine = match style {
                    0 => true,
                    1 => false,
                    _ => self.rng.chance(1, 2),
                };
                let q = if fine {
                    match self.rng.below(4) {
                        0 | 1 => 1,
                        2 => self.rng.range(2, 4) as u32,
                        _ => self.rng.range(5, 40) as u32,
                    }
                } else {
                    let e = self.rng.below(14);
                    (1u32 << e) + (self.rng.next() % (1u64 << e)) as u32
                };
                (t, q)
            }
            Schedule::Pct(_, _) => {
                let t = *runnable.iter().max_by_key(|t| self.prio[**t]).unwrap();
                if self.last == Some(t) {
                    self.streak += 1;
                } else {
                    self.streak = 0;
                    self.last = Some(t);
                }
                if self.change_at.contains(&i) || self.streak > 500 {
                    // demote the running thread below everyone else (a priority change point, or it has
                    // been spinning at synchronisation points for thousands of grants: starvation guard)
                    self.demotions += 1;
                    self.prio[t] = 1000u64.saturating_sub(self.demotions);
                    self.streak = 0;
                }
                let e = self.rng.below(12);
                (t, (1u32 << e) + (self.rng.next() % (1u64 << e)) as u32)
            }
            Schedule::RoundRobin(q) => {
                if self.rr_left == 0 || !runnable.contains(&self.rr_cur) {
                    let next = runnable.iter().copied().find(|t| *t > self.rr_cur).unwrap_or(runnable[0]);
                    self.rr_cur = if runnable.contains(&self.rr_cur) && self.rr_left > 0 { self.rr_cur } else { next };
                    self.rr_left = (*q).max(1);
                }
                self.rr_left -= 1;
                (self.rr_cur, 1)
            }
            Schedule::Sequential => (runnable[0], 1_000_000),
        }
    }
}

pub const STALL_TIMEOUT: Duration = Duration::from_secs(120);

pub struct ExecCfg {
    /// evaluate the isolated references after the scenario instead of before it, so that the
    /// scenario's threads are the first users of whatever the library initialises lazily
    pub refs_after: bool,
    pub want_log: bool,
    pub check_mul_claims: bool,
    pub stall_timeout: Duration,
}

/// Execute one plan: real OS threads, one running at a time, the schedule decides who.
/// `on_stall` is called (and must not return) if a thread never gives the token back.
// ---- use of the library while a simulated thread shuts down (ordinary build only)
//
// A caller may keep a per-thread object that is created when the thread starts and calls the library
// from its destructor when the thread exits. Every simulated thread registers such a thread-local after
// the harness's own and before its first library call; destructors run last-registered-first, so whatever
// the library registered on this thread is torn down before it. From the destructor the thread - still
// holding the token - evaluates its last operation once more, on fresh objects; only then does it report
// "finished". The result must equal the isolated evaluation like any other.
struct ExitCtx {
    sim: Arc<Sim>,
    me: usize,
    shared: *const Shared,
    rs: *const RunShared,
    op: Option<Op>,
    out: Arc<Mutex<Option<(Op, Outcome)>>>,
    yields_total: Arc<Mutex<u64>>,
}
struct ExitSlot(std::cell::RefCell<Option<ExitCtx>>);
impl Drop for ExitSlot {
    fn drop(&mut self) {
        if let Some(cx) = self.0.borrow_mut().take() {
            if let Some(op) = cx.op.clone() {
                let mut tl = ThreadObjs::new();
                let (outcome, _) = unsafe { eval_caught(&op, &*cx.shared, &*cx.rs, &mut tl) };
                *cx.out.lock().unwrap() = Some((op, outcome));
            }
            finish_thread(&cx.sim, cx.me, &cx.yields_total);
        }
    }
}
thread_local! { static EXIT_SLOT: ExitSlot = const { ExitSlot(std::cell::RefCell::new(None)) }; }

fn finish_thread(sim: &Arc<Sim>, me: usize, yields_total: &Mutex<u64>) {
    sim.no_wait[me].store(true, std::sync::atomic::Ordering::SeqCst);
    *yields_total.lock().unwrap() += tok::leave();
    sim.give_back(me, true, "finished");
}

/// the operation a thread repeats from its exit destructor: its last one, made independent of the
/// thread's objects (private context, fresh buffers); none for operations that need per-scenario views
fn exit_op(op: &Op) -> Option<Op> {
    if op.k.contains("wnaf_view") || op.k.ends_with("wnaf_poison") {
        return None;
    }
    let mut o = op.clone();
    if is_ctx_op(&o.k) && !o.a.is_empty() {
        o.a[0] = 0;
    }
    if o.k.ends_with("wnaf_raw") && o.a.len() > 3 {
        o.a[3] &= !1;
    }
    Some(o)
}

pub fn run_plan(plan: &SchedPlan, shared: &Shared, ref_shared: &Shared, refs: &mut Refs, cfg: &ExecCfg, on_stall: &dyn Fn(&SRun) -> ()) -> SRun {
    if !cfg.refs_after {
        ensure_refs(plan, refs, ref_shared);
    }
    let n = plan.threads.len();
    let sim = Sim::new(n, plan.yield_mask);
    let rs = RunShared::new(plan.nshared_ctx, plan.threads.iter().any(|t| RunShared::needs_prepared(&t.ops)));
    let results: Vec<Mutex<Vec<(Outcome, Vec<Claim>)>>> = (0..n).map(|_| Mutex::new(vec![])).collect();
    let progress: Vec<Mutex<(usize, bool)>> = (0..n).map(|_| Mutex::new((0usize, false))).collect(); // (ops completed, died)
    let yields_total = Arc::new(Mutex::new(0u64));
    let exit_results: Vec<Arc<Mutex<Option<(Op, Outcome)>>>> = (0..n).map(|_| Arc::new(Mutex::new(None))).collect();
    let unwind_results: Vec<Arc<Mutex<Option<(Op, Outcome)>>>> = (0..n).map(|_| Arc::new(Mutex::new(None))).collect();
    let exit_flush = !crate::mc::instrumented();
    let mut decisions: Vec<usize> = vec![];
    let mut exec_order: Vec<(usize, usize)> = vec![]; // (thread, op index) in completion order
    let mut stalled: Option<String> = None;
    let mut blocked_events = 0u64;

    with_objs(plan, n, |objs| {
        std::thread::scope(|s| {
            for (i, mut tl) in objs.into_iter().enumerate() {
                let sim = sim.clone();
                let tp = &plan.threads[i];
                let rs = &rs;
                let results = &results;
                let progress = &progress;
                let yields_total = yields_total.clone();
                let exit_out = exit_results[i].clone();
                let unwind_out = unwind_results[i].clone();
                s.spawn(move || {
                    tok::enter(&sim, i);
                    if exit_flush {
                        EXIT_SLOT.with(|e| {
                            *e.0.borrow_mut() =
                                Some(ExitCtx { sim: sim.clone(), me: i, shared: shared as *const Shared, rs: rs as *const RunShared, op: None, out: exit_out.clone(), yields_total: yields_total.clone() })
                        });
                    }
                    crate::mc::set_preempts(tp.preempt_at.clone());
                    if tp.stall_after.is_some() {
                        sim.no_wait[i].store(true, std::sync::atomic::Ordering::SeqCst);
                    }
                    sim.wait_turn(i);
                    let mut died = false;
                    for (oi, op) in tp.ops.iter().enumerate() {
                        crate::mc::resume();
                        let (outcome, claims) = eval_caught(op, shared, rs, &mut tl);
                        crate::mc::pause();
                        let harness_died = matches!(outcome, Outcome::HarnessDied);
                        results[i].lock().unwrap().push((outcome, claims));
                        progress[i].lock().unwrap().0 = oi + 1;
                        sim.ops_done[i].store(oi + 1, std::sync::atomic::Ordering::SeqCst);
                        if harness_died || tp.die_after == Some(oi) {
                            // the thread dies here: unwinds through the harness, dropping its objects
                            died = true;
                            break;
                        }
                        if tp.exit_after == Some(oi) {
                            break;
                        }
                        if oi + 1 < tp.ops.len() {
                            sim.give_back(i, false, "operation boundary");
                            sim.wait_turn(i);
                        }
                    }
                    if died {
                        progress[i].lock().unwrap().1 = true;
                        // while the thread unwinds, a destructor of the caller evaluates the thread's last
                        // operation once more (clean-up code that reports a last result): `thread::panicking()`
                        // is true, which no library call may depend on
                        let unwind_op = if exit_flush { tp.ops.get(sim.ops_done[i].load(std::sync::atomic::Ordering::SeqCst).saturating_sub(1)).and_then(exit_op) } else { None };
                        struct UnwindEval<'x> {
                            op: Option<Op>,
                            shared: &'x Shared,
                            rs: &'x RunShared,
                            out: Arc<Mutex<Option<(Op, Outcome)>>>,
                        }
                        impl<'x> Drop for UnwindEval<'x> {
                            fn drop(&mut self) {
                                if let Some(op) = self.op.take() {
                                    let mut fresh = ThreadObjs::new();
                                    let (outcome, _) = eval_caught(&op, self.shared, self.rs, &mut fresh);
                                    *self.out.lock().unwrap() = Some((op, outcome));
                                }
                            }
                        }
                        let guard = UnwindEval { op: unwind_op, shared, rs, out: unwind_out.clone() };
                        let _ = catch_unwind(AssertUnwindSafe(|| {
                            let _moved = tl;
                            let _g = guard;
                            std::panic::panic_any(HarnessPanic);
                        }));
                    }
                    if exit_flush {
                        // finishing (and, for a thread that ended normally, one more evaluation of its last
                        // operation) happens in the thread-local destructor
                        let last = if died || tp.exit_after.is_some() || tp.stall_after.is_some() { None } else { tp.ops.last().and_then(exit_op) };
                        EXIT_SLOT.with(|e| {
                            if let Some(cx) = e.0.borrow_mut().as_mut() {
                                cx.op = last;
                            }
                        });
                    } else {
                        finish_thread(&sim, i, &yields_total);
                    }
                });
            }
            // ---- the scheduler
            let mut chooser = Chooser::new(&plan.schedule, n);
            let mut last_progress: Vec<usize> = vec![0; n];
            let mut all_blocked_since: Option<std::time::Instant> = None;
            loop {
                let unfinished: Vec<usize> = (0..n).filter(|t| !sim.is_finished(*t)).collect();
                if unfinished.is_empty() {
                    break;
                }
                // threads asleep on a lock are not candidates until they re-join; whether a revoked thread
                // is still asleep is settled before every decision, so the candidate set is a function of
                // the logical state (is its lock still held?) and not of timing
                for t in &unfinished {
                    if sim.is_revoked(*t) {
                        sim.settle_revoked(*t);
                    }
                }
                let unfinished: Vec<usize> = unfinished.into_iter().filter(|t| !sim.is_finished(*t)).collect();
                if unfinished.is_empty() {
                    break;
                }
                let awake: Vec<usize> = unfinished.iter().copied().filter(|t| !sim.is_revoked(*t)).collect();
                if awake.is_empty() {
                    // every unfinished thread sleeps in the kernel holding or wanting a lock
                    let since = *all_blocked_since.get_or_insert_with(std::time::Instant::now);
                    if since.elapsed() > Duration::from_millis(1500) {
                        let detail: Vec<String> = unfinished
                            .iter()
                            .map(|t| {
                                let done = progress[*t].lock().unwrap().0;
                                format!("thread {}: op #{} {}, {}", t, done, plan.threads[*t].ops.get(done).map(|o| o.key()).unwrap_or_default(), sim.describe(*t))
                            })
                            .collect();
                        stalled = Some(format!("deadlock: every unfinished thread ({:?}) is blocked inside a library call [{}]", unfinished, detail.join("; ")));
                        let r = SRun {
                            violation: None,
                            digest: 0,
                            trace_digest: 0,
                            decisions: decisions.clone(),
                            ops_run: 0,
                            yields: 0,
                            counters: Default::default(),
                            object_histories: vec![],
                            pair_kinds: vec![],
                            log: vec![],
                            stalled: stalled.clone(),
                        };
                        on_stall(&r);
                        std::process::exit(4);
                    }
                    sim.wait_for_rejoin(Duration::from_millis(20));
                    continue;
                }
                all_blocked_since = None;
                // stalled threads (fault) are held back until everyone else is done
                let mut runnable: Vec<usize> = awake
                    .iter()
                    .copied()
                    .filter(|t| match plan.threads[*t].stall_after {
                        Some(sa) => progress[*t].lock().unwrap().0 <= sa,
                        None => true,
                    })
                    .collect();
                if runnable.is_empty() {
                    runnable = awake.clone();
                }
                let (t, q) = chooser.pick(&runnable);
                decisions.push(t + 64 * (q.min(1_000_000) as usize - 1).min(1 << 20));
                match sim.grant(t, q, cfg.stall_timeout) {
                    crate::tok::Grant::Returned => {}
                    crate::tok::Grant::Blocked => {
                        blocked_events += 1;
                    }
                    crate::tok::Grant::Stalled(at) => {
                        stalled = Some(format!("thread {} never returned the token (last yield point: {})", t, at));
                        let r = SRun {
                            violation: None,
                            digest: 0,
                            trace_digest: 0,
                            decisions: decisions.clone(),
                            ops_run: 0,
                            yields: 0,
                            counters: Default::default(),
                            object_histories: vec![],
                            pair_kinds: vec![],
                            log: vec![],
                            stalled: stalled.clone(),
                        };
                        on_stall(&r);
                        std::process::exit(4);
                    }
                }
                for t in 0..n {
                    let p = progress[t].lock().unwrap().0;
                    while last_progress[t] < p {
                        exec_order.push((t, last_progress[t]));
                        last_progress[t] += 1;
                    }
                }
                if decisions.len() > 400_000 {
                    let detail: Vec<String> = unfinished.iter().map(|t| format!("thread {}: {}", t, sim.describe(*t))).collect();
                    stalled = Some(format!(
                        "no termination after {} scheduling decisions (threads {:?} unfinished): a thread waits inside a call-back for another thread that cannot make progress, or a spin loop never ends [{}]",
                        decisions.len(),
                        unfinished,
                        detail.join("; ")
                    ));
                    let r = SRun {
                        violation: None,
                        digest: 0,
                        trace_digest: 0,
                        decisions: decisions[..decisions.len().min(2000)].to_vec(),
                        ops_run: 0,
                        yields: 0,
                        counters: Default::default(),
                        object_histories: vec![],
                        pair_kinds: vec![],
                        log: vec![],
                        stalled: stalled.clone(),
                    };
                    on_stall(&r);
                    std::process::exit(4);
                }
            }
        });
    });

    // ---- oracle
    ensure_refs(plan, refs, ref_shared);
    let mut dg = Digest::new();
    let mut cnt = crate::io::Counters::default();
    let mut log = vec![];
    let mut violation: Option<SViolation> = None;
    let mut ops_run = 0usize;
    let mut tdg = Digest::new();
    for d in &decisions {
        tdg.u64(*d as u64);
    }
    let sc = &spools().scalars;
    let all: Vec<Vec<(Outcome, Vec<Claim>)>> = results.into_iter().map(|m| m.into_inner().unwrap()).collect();
    for (t, tp) in plan.threads.iter().enumerate() {
        for (oi, (outcome, claims)) in all[t].iter().enumerate() {
            let op = &tp.ops[oi];
            ops_run += 1;
            let key = view_key(plan, op);
            dg.u64(t as u64);
            dg.str(&key);
            let mk = |inv: &str, exp: String, obs: String| SViolation { invariant: inv.to_string(), thread: t, op_index: oi, op: op.key(), expected: exp, observed: obs };
            let expected = refs.map.get(&key);
            match outcome {
                Outcome::Image(img) => {
                    dg.bytes(img);
                    if cfg.want_log {
                        log.push(format!("thread {} op {} {} -> {}", t, oi, op.key(), short(img)));
                    }
                    match expected {
                        Some(Outcome::Image(e)) => {
                            if e != img {
                                let has_mul_claims = claims.iter().any(|c| matches!(c, Claim::Mul { .. }));
                                if plan.focus == "wnaf" && cfg.check_mul_claims && has_mul_claims {
                                    // C02 speaks about the point returned, not its projective representation:
                                    // every result of this operation is compared with the affine reference
                                    // below, which decides; a mere representation difference is C20's business
                                    cnt.inc("probe_bits_differ_from_fresh_context_point_decided_by_reference");
                                } else if violation.is_none() {
                                    violation = Some(mk(
                                        if plan.focus == "wnaf" { "c02/reused-state-equals-fresh-state" } else { "c20/bit-identical-to-isolated-evaluation" },
                                        short(e),
                                        short(img),
                                    ));
                                }
                            }
                        }
                        Some(Outcome::LibPanic(m)) => {
                            if violation.is_none() {
                                violation = Some(mk("c20/bit-identical-to-isolated-evaluation", format!("panic in isolation: {}", m), short(img)));
                            }
                        }
                        _ => {}
                    }
                    if img.ends_with(b"PANIC") {
                        cnt.inc("probe_expected_panic_fired");
                    }
                }
                Outcome::LibPanic(m) => {
                    dg.str("panic");
                    if cfg.want_log {
                        log.push(format!("thread {} op {} {} -> PANIC {}", t, oi, op.key(), m));
                    }
                    let same = matches!(expected, Some(Outcome::LibPanic(_)));
                    if !same && violation.is_none() {
                        // panics here, returns a value in isolation: the behaviour depends on history / concurrency
                        violation = Some(mk(
                            "c20/no-unexpected-panic",
                            match expected {
                                Some(Outcome::Image(e)) => short(e),
                                _ => "a result".into(),
                            },
                            format!("library panicked: {}", m),
                        ));
                    }
                    if same {
                        // panics in isolation too: a deterministic function of its arguments, which C20 does
                        // not forbid; the scalar-multiplication paths, however, must return [k]P (C02)
                        cnt.inc("probe_operation_panics_deterministically");
                        if plan.focus == "wnaf" && violation.is_none() {
                            violation = Some(mk("c02/multiplication-paths-return-a-point", "[k]P".into(), format!("library panicked (also on fresh state): {}", m)));
                        }
                    }
                }
                Outcome::HarnessDied => {
                    dg.str("died");
                    cnt.inc("fault_fired_panic_between_wnaf_stages");
                    if cfg.want_log {
                        log.push(format!("thread {} op {} {} -> thread killed by the harness between two wNAF stages", t, oi, op.key()));
                    }
                }
            }
            // claims (C02 oracles 2 and 3)
            for c in claims {
                match c {
                    Claim::Window { w, what } => {
                        cnt.inc("claims_window_checked");
                        if (*w < 2 || *w > 22) && violation.is_none() {
                            violation = Some(mk("c02/recommended-window-in-2..=22", "2..=22".into(), format!("{} returned {}", what, w)));
                        }
                    }
                    Claim::Mul { g, p, k, got, path } => {
                        if !cfg.check_mul_claims {
                            continue;
                        }
                        // resolve view sentinels
                        let (mut pp, mut kk) = (*p, *k);
                        if pp > usize::MAX / 2 {
                            let vi = usize::MAX - pp;
                            let vs: Vec<&(u8, usize, usize)> = plan.views_b.iter().filter(|v| v.0 == *g).collect();
                            pp = vs[vi % vs.len()].1 % if *g == 1 { G1::nsub() } else { G2::nsub() };
                        }
                        if kk > usize::MAX / 2 {
                            let vi = usize::MAX - kk;
                            let vs: Vec<&(u8, usize)> = plan.views_s.iter().filter(|v| v.0 == *g).collect();
                            kk = lt255_index(vs[vi % vs.len()].1);
                        }
                        let want = ref_mul(*g, pp, kk);
                        cnt.inc("claims_mul_checked_against_affine_reference");
                        if &want != got && violation.is_none() {
                            violation = Some(mk(
                                "c02/equals-affine-double-and-add-reference",
                                format!("[{}]*P{} (group {}) = {}", sc[kk].name, pp, g, short(&want)),
                                format!("{} returned {}", path, short(got)),
                            ));
                        }
                    }
                }
            }
        }
        if progress[t].lock().unwrap().1 {
            cnt.inc("fault_fired_thread_died");
        }
        if tp.exit_after.map(|e| e + 1 < tp.ops.len()).unwrap_or(false) {
            cnt.inc("fault_fired_early_exit");
        }
        if tp.stall_after.map(|e| e + 1 < tp.ops.len()).unwrap_or(false) && n > 1 {
            cnt.inc("fault_fired_stall");
        }
    }
    // poisoned locks that were recovered
    for m in rs.sctx1.iter() {
        if m.is_poisoned() {
            cnt.inc("probe_poisoned_lock_seen");
        }
    }
    for m in rs.sctx2.iter() {
        if m.is_poisoned() {
            cnt.inc("probe_poisoned_lock_seen");
        }
    }

    // ---- measures: object histories and call-kind pairs, in execution order
    let mut hist: BTreeMap<String, Vec<String>> = BTreeMap::new();
    let mut pair_kinds = vec![];
    let mut last_kind_thread: Vec<Option<String>> = vec![None; n];
    let mut last_kind_any: Option<(usize, String)> = None;
    let mut view_users: BTreeMap<String, Vec<usize>> = BTreeMap::new();
    for (t, oi) in &exec_order {
        let op = &plan.threads[*t].ops[*oi];
        let kind = op.k.clone();
        if let Some(prev) = &last_kind_thread[*t] {
            pair_kinds.push(hash_bytes(format!("same|{}|{}", prev, kind).as_bytes()));
        }
        if let Some((pt, prev)) = &last_kind_any {
            if pt != t {
                pair_kinds.push(hash_bytes(format!("cross|{}|{}", prev, kind).as_bytes()));
            }
        }
        last_kind_thread[*t] = Some(kind.clone());
        last_kind_any = Some((*t, kind.clone()));
        let g = if kind.starts_with("g1_") { 1 } else { 2 };
        if is_ctx_op(&kind) {
            let obj = if op.arg(0) == 0 || plan.nshared_ctx == 0 { format!("g{}/thread{}", g, t) } else { format!("g{}/shared{}", g, (op.arg(0) - 1) % plan.nshared_ctx) };
            let mut o = op.clone();
            o.a[0] = 0;
            hist.entry(obj).or_default().push(o.key());
        } else if kind.ends_with("pre3_reuse") || kind.ends_with("pre256_reuse") {
            hist.entry(format!("g{}/{}buf{}", g, if kind.ends_with("pre3_reuse") { "tbl3" } else { "tbl256" }, t)).or_default().push(op.key());
        } else if kind.ends_with("wnaf_raw") && op.arg(3) % 2 == 1 {
            hist.entry(format!("g{}/rawbuf{}", g, t)).or_default().push(op.key());
        } else if kind.contains("wnaf_view") {
            view_users.entry(view_key(plan, op).split('[').nth(1).unwrap_or("").to_string()).or_default().push(*t);
        } else if kind == "miller" {
            view_users.entry(format!("prep{}", op.arg(2))).or_default().push(*t);
            cnt.inc("probe_prepared_elements_of_this_scenario_used_in_miller_loop");
        }
    }
    let mut object_histories = vec![];
    for (obj, h) in &hist {
        if h.len() >= 2 {
            let shared_obj = obj.contains("shared");
            object_histories.push(hash_bytes(format!("{}|{}", if shared_obj { "shared" } else { "private" }, h.join(";")).as_bytes()));
            cnt.inc("probe_context_reused");
            // window / base relations between consecutive uses
            for w in h.windows(2) {
                let a: Vec<&str> = w[0].split(' ').collect();
                let b: Vec<&str> = w[1].split(' ').collect();
                if a[0] == b[0] && a.get(2) == b.get(2) && a.len() > 3 && a.get(3) != b.get(3) && a[0].ends_with("wnaf_bs") {
                    cnt.inc("probe_same_base_different_num_scalars");
                }
                if a[0].ends_with("wnaf_sb") && b[0].ends_with("wnaf_sb") && b.get(2) == Some(&"0") && a.get(2) != Some(&"0") {
                    cnt.inc("probe_zero_scalar_after_nonzero");
                }
                if a[0].contains("half") {
                    cnt.inc("probe_use_after_abandoned_stage");
                }
            }
        }
    }
    for (_, users) in &view_users {
        let mut u = users.clone();
        u.sort();
        u.dedup();
        if u.len() >= 2 {
            cnt.inc("probe_shared_object_used_by_2plus_threads");
        }
    }
    // ---- what the threads evaluated from their exit destructors, and from a destructor running while the
    // thread unwound from the harness's panic
    let late: Vec<(usize, bool, (Op, Outcome))> = exit_results
        .iter()
        .enumerate()
        .filter_map(|(t, s)| s.lock().unwrap().take().map(|x| (t, false, x)))
        .chain(unwind_results.iter().enumerate().filter_map(|(t, s)| s.lock().unwrap().take().map(|x| (t, true, x))))
        .collect();
    for (t, unwinding, (op, outcome)) in late {
        {
            cnt.inc(if unwinding { "fault_fired_library_call_while_the_thread_unwinds" } else { "fault_fired_library_call_from_thread_exit_destructor" });
            dg.str(if unwinding { "unwind" } else { "exit" });
            let key = view_key(plan, &op);
            let expected = refs.map.get(&key);
            let same = match (&outcome, expected) {
                (Outcome::Image(a), Some(Outcome::Image(b))) => a == b,
                (Outcome::LibPanic(_), Some(Outcome::LibPanic(_))) => true,
                (_, None) => true, // no isolated evaluation under this key: nothing to compare with
                _ => false,
            };
            // A thread-local with a destructor cannot be reached from a later destructor of the same thread:
            // `LocalKey::with` panics there by std's documented contract, for a correct per-thread scratch
            // buffer as much as for a broken one (negative control seeded/own/neg_correct_threadlocal_scratch).
            // That is recorded as a probe, never as a verdict (DESIGN 6.1); a wrong VALUE is a verdict.
            let tls_gone = matches!(&outcome, Outcome::LibPanic(m) if m.contains("Thread Local Storage value during or after destruction"));
            if !same && tls_gone {
                cnt.inc("probe_thread_local_already_destroyed_in_exit_destructor");
            }
            if !same && !tls_gone && violation.is_none() {
                violation = Some(SViolation {
                    invariant: if unwinding { "c20/usable-while-the-thread-unwinds".into() } else { "c20/usable-while-the-thread-exits".into() },
                    thread: t,
                    op_index: plan.threads[t].ops.len(),
                    op: op.key(),
                    expected: match expected {
                        Some(Outcome::Image(e)) => short(e),
                        Some(Outcome::LibPanic(m)) => format!("panic: {}", m),
                        _ => "the isolated evaluation".into(),
                    },
                    observed: match &outcome {
                        Outcome::Image(i) => short(i),
                        Outcome::LibPanic(m) => format!("library panicked: {}", m),
                        Outcome::HarnessDied => "thread killed".into(),
                    },
                });
            }
        }
    }
    let yields_n: u64 = *yields_total.lock().unwrap();
    cnt.add("yields_inside_calls", yields_n);
    cnt.add("sync_points_reached", sim.sync_points.load(std::sync::atomic::Ordering::Relaxed));
    cnt.add("threads_found_blocked_on_a_lock", blocked_events);
    cnt.add("fault_fired_preempted_at_arbitrary_function_entry", sim.forced_preemptions.load(std::sync::atomic::Ordering::Relaxed));
    cnt.add("reads_that_waited_for_another_thread", sim.dependent_waits.load(std::sync::atomic::Ordering::Relaxed));
    dg.u64(ops_run as u64);
    SRun {
        violation,
        digest: dg.finish(),
        trace_digest: tdg.finish(),
        decisions,
        ops_run,
        yields: yields_n,
        counters: cnt,
        object_histories,
        pair_kinds,
        log,
        stalled,
    }
}

// ---------------------------------------------------------------- generation

struct Fam {
    name: &'static str,
    /// rough cost in microseconds (G1); used to bound the cost of a run
    cost: u32,
    gen: fn(&mut Rng, &GenCfg) -> Op,
}

pub struct GenCfg {
    /// "first use in a fresh process" mode: every scenario is a cache-stress scenario of one family,
    /// every thread gets several arbitrary preemption points among its first 2^18 function entries
    pub fresh: bool,
    /// restrict the operation families (empty = all families of the focus)
    pub only_fams: Vec<String>,
    /// upper bound on threads per scenario (0 = default distribution)
    pub max_threads: usize,
    /// > 0: "wide" scenarios - this many live threads, each calling one operation of one family once
    /// (same call, different arguments), two arbitrary preemption points each in the instrumented build.
    /// State a tree keys by a hash or a slot derived from the calling thread's identity is shared by
    /// some pair of these threads once there are more threads than slots.
    pub wide: usize,
    /// > 0: "long" scenarios - two threads that each repeat one operation kind (three argument
    /// variants) up to this many times: per-thread and process-wide counters, "every n-th call" paths
    /// and slowly growing state get past 2^8 (quick) or 2^16 (thorough, cheap operations) calls
    pub long: usize,
    /// estimated microseconds of work allowed per long scenario
    pub long_budget_us: u64,
    /// leave out the big sizes (MSM with up to 4099 terms, batches of 1030 points, 70 kB messages):
    /// for the slowest instrumented build
    pub no_big: bool,
    pub focus: String,
    pub max_window: usize,
    pub min_window: usize,
    pub with_256: bool,
    pub nviews_b: [usize; 2],
    pub nviews_s: [usize; 2],
    pub nshared: usize,
}

fn g(r: &mut Rng) -> &'static str {
    if r.chance(3, 5) {
        "g1"
    } else {
        "g2"
    }
}
fn gop(name: &str, a: &[usize], r: &mut Rng) -> Op {
    Op::new(&format!("{}_{}", g(r), name), a)
}
fn nsc() -> usize {
    spools().scalars.len()
}
fn rk(r: &mut Rng) -> usize {
    // a fifth: the structured head of the scalar pool; two fifths: the hand-made scalars; two fifths:
    // the generated structured ones that follow them
    let nh = crate::spool::n_hand();
    if std::env::var_os("PP_SIM_ONLY_GENERATED_SCALARS").is_some() {
        // experiment knob (DESIGN 6.3): would the generated scalars alone have found a seeded change?
        return nh + r.below(nsc() - nh);
    }
    match r.below(5) {
        0 => r.below(10),
        1 | 2 => r.below(nh),
        _ => nh + r.below(nsc() - nh),
    }
}
fn ctxsel(r: &mut Rng, c: &GenCfg) -> usize {
    if c.nshared > 0 && r.chance(1, 2) {
        1 + r.below(c.nshared)
    } else {
        0
    }
}

const FAMS: &[Fam] = &[
    Fam { name: "fields", cost: 60, gen: |r, _| Op::new(*r.pick(&["fq_ops", "fr_ops", "fq2_ops", "fq6_ops", "fq12_ops", "fields_lite"]), &[r.below(8), r.below(8)]) },
    Fam { name: "misc", cost: 40, gen: |r, _| match r.below(4) { 0 => Op::new("misc", &[r.below(8), r.below(100_000)]), 1 => Op::new("field_random", &[r.below(5), r.below(40)]), _ => Op::new("misc2", &[r.below(10), r.below(1000)]) } },
    Fam { name: "h2f", cost: 30, gen: |r, _| Op::new("h2f", &[r.below(6), r.below(2), r.below(8), r.below(6), r.below(3), r.below(2)]) },
    Fam { name: "arith", cost: 10, gen: |r, _| gop("arith", &[r.below(12), r.below(12)], r) },
    Fam { name: "mul", cost: 300, gen: |r, _| if r.chance(1, 5) { gop("mul_re", &[r.below(10), rk(r), r.below(4)], r) } else { gop(["mul", "amul", "ymul"][r.below(3)], &[r.below(12), rk(r)], r) } },
    Fam { name: "affine", cost: 30, gen: |r, c| if r.chance(1, 2) { gop("affine", &[r.below(12)], r) } else { gop("batchnorm", &[r.below(12), if !c.no_big && r.chance(1, 8) { 6 + r.below(5) } else { r.below(6) }], r) } },
    Fam { name: "random", cost: 400, gen: |r, _| gop("random", &[r.below(50)], r) },
    Fam { name: "wnaf_bs", cost: 350, gen: |r, c| gop("wnaf_bs", &[ctxsel(r, c), r.below(10), r.below(if c.focus == "wnaf" { 14 } else { 9 }), rk(r)], r) },
    Fam { name: "wnaf_sb", cost: 350, gen: |r, c| gop("wnaf_sb", &[ctxsel(r, c), rk(r), r.below(10)], r) },
    Fam {
        name: "wnaf_multi",
        cost: 900,
        gen: |r, c| {
            if r.chance(1, 2) {
                gop("wnaf_bs_multi", &[ctxsel(r, c), r.below(10), r.below(9), rk(r), rk(r), rk(r)], r)
            } else {
                gop("wnaf_sb_multi", &[ctxsel(r, c), rk(r), r.below(10), r.below(10), r.below(10)], r)
            }
        },
    },
    Fam { name: "wnaf_half", cost: 100, gen: |r, c| if r.chance(1, 2) { gop("wnaf_half", &[ctxsel(r, c), rk(r)], r) } else { gop("wnaf_half_b", &[ctxsel(r, c), r.below(10), r.below(9)], r) } },
    Fam { name: "wnaf_view", cost: 300, gen: |r, _| if r.chance(1, 2) { gop("wnaf_view_b", &[r.below(2), rk(r)], r) } else { gop("wnaf_view_s", &[r.below(2), r.below(10)], r) } },
    Fam { name: "wnaf_raw", cost: 600, gen: |r, c| gop("wnaf_raw", &[r.below(10), rk(r), r.range(c.min_window, c.max_window) - 2, r.below(8)], r) },
    Fam { name: "rec", cost: 1, gen: |r, _| if r.chance(1, 2) { gop("rec_scalar", &[r.below(nsc())], r) } else { gop("rec_num", &[r.below(4), (r.next() >> r.below(64)) as usize], r) } },
    Fam { name: "pre3", cost: 150, gen: |r, _| match r.below(7) { 0 => gop("pre3", &[r.below(10)], r), 1 | 2 => gop("pre3_reuse", &[r.below(10), rk(r)], r), 3 => gop("pre3_pack", &[r.below(10), rk(r), r.below(10)], r), _ => gop("mul3", &[r.below(10), rk(r)], r) } },
    Fam { name: "pre256", cost: 400, gen: |r, c| if c.with_256 && r.chance(4, 6) { gop("mul256", &[r.below(10), rk(r)], r) } else if r.chance(1, 2) { gop("pre256_reuse", &[r.below(10), rk(r)], r) } else if r.chance(1, 2) { gop("pre256_pack", &[r.below(10), rk(r), r.below(10)], r) } else { gop("pre256", &[r.below(10)], r) } },
    Fam {
        name: "msm",
        cost: 1500,
        gen: |r, c| match r.below(3) {
            0 => gop("sop", &[if !c.no_big && r.chance(1, 8) { 7 + r.below(11) } else { r.below(7) }, r.below(6), r.below(nsc())], r),
            1 => gop("pip", &[if !c.no_big && r.chance(1, 12) { 7 + r.below(11) } else { r.below(7) }, r.below(6), r.below(nsc()), r.below(9)], r),
            _ => {
                if c.with_256 {
                    gop("sop256", &[r.below(2), r.below(nsc())], r)
                } else {
                    gop("sop", &[r.below(7), r.below(6), r.below(nsc())], r)
                }
            }
        },
    },
    Fam { name: "encode", cost: 200, gen: |r, _| if r.chance(1, 3) { gop("compress", &[r.below(10)], r) } else { gop("decode", &[r.below(20), r.below(2)], r) } },
    Fam { name: "serdes", cost: 400, gen: |r, _| match r.below(4) { 0 => Op::new("fr_serdes", &[r.below(8), r.below(5)]), 1 => Op::new("fq12_serdes", &[r.below(10), r.below(5)]), _ => gop("serdes", &[r.below(10), r.below(2), r.below(2), r.below(5)], r) } },
    Fam { name: "h2c", cost: 1200, gen: |r, _| gop(if r.chance(1, 2) { "h2c" } else { "e2c" }, &[r.below(4), r.below(8), r.below(6), r.below(2)], r) },
    Fam { name: "insub", cost: 400, gen: |r, _| gop("insub", &[r.below(12)], r) },
    Fam { name: "prepare", cost: 300, gen: |r, _| gop("prepare", &[r.below(10)], r) },
    Fam { name: "miller", cost: 1500, gen: |r, _| Op::new("miller", &[r.below(4), r.below(6), r.below(6), r.below(6)]) },
    Fam { name: "finalexp", cost: 1500, gen: |r, _| Op::new("finalexp", &[r.below(6)]) },
    Fam {
        name: "pairing",
        cost: 3500,
        gen: |r, _| match r.below(4) {
            0 => Op::new("pairing", &[r.below(10), r.below(10)]),
            1 => Op::new("pairing_with", &[r.below(2), r.below(10), r.below(10)]),
            2 => Op::new("pairing_product", &[r.below(10), r.below(10), r.below(10), r.below(10)]),
            _ => Op::new("pairing_multi", &[r.below(6), r.below(6), r.below(6)]),
        },
    },
    Fam { name: "expected_panic", cost: 100, gen: |r, _| match r.below(6) { 0 => gop("x_pip_topbit", &[r.below(3), r.below(9)], r), 1 => Op::new("x_xmd_long", &[]), 2 => Op::new("x_multi_short", &[]), 3 => Op::new("x_cb_pairing", &[r.below(3), r.below(1000)]), _ => gop("x_cb", &[r.below(5), r.below(1000)], r) } },
];

const WNAF_FAMS: &[&str] = &["mul", "wnaf_bs", "wnaf_sb", "wnaf_multi", "wnaf_half", "wnaf_view", "wnaf_raw", "rec", "pre3", "pre256"];

fn wide_fams(cfg: &GenCfg) -> Vec<&'static Fam> {
    let mut fams: Vec<&Fam> = if cfg.focus == "wnaf" { FAMS.iter().filter(|f| WNAF_FAMS.contains(&f.name)).collect() } else { FAMS.iter().collect() };
    if !cfg.only_fams.is_empty() {
        fams.retain(|f| cfg.only_fams.iter().any(|n| n == f.name));
    }
    fams
}

/// the operation kinds the allowed families generate (sorted; found by sampling the generators)
pub fn wide_kinds(cfg: &GenCfg) -> Vec<(String, usize)> {
    let fams = wide_fams(cfg);
    let mut out: Vec<(String, usize)> = vec![];
    let mut r = Rng::new(0x77696465);
    for (fi, f) in fams.iter().enumerate() {
        for _ in 0..200 {
            let k = (f.gen)(&mut r, cfg).k;
            if !out.iter().any(|(n, _)| *n == k) {
                out.push((k, fi));
            }
        }
    }
    out.sort();
    out
}

/// "Wide" scenario number `idx`: `cfg.wide` live threads, each calling the `idx`-th operation kind of
/// the allowed families once, with different arguments, under a random schedule; in the instrumented
/// build every thread is also preempted at two arbitrary function entries inside its call.
pub fn gen_wide(seed: u64, idx: usize, cfg: &GenCfg) -> SchedPlan {
    let mut r = Rng::new(seed);
    let fams = wide_fams(cfg);
    let kinds = wide_kinds(cfg);
    let (kind, fi) = kinds[idx % kinds.len()].clone();
    let f = fams[fi];
    let mut threads = vec![];
    for _ in 0..cfg.wide {
        let mut v = (f.gen)(&mut r, cfg);
        for _ in 0..400 {
            if v.k == kind {
                break;
            }
            v = (f.gen)(&mut r, cfg);
        }
        let mut tp = ThreadPlan { ops: vec![v], ..Default::default() };
        for _ in 0..2 {
            let e = 6 + r.below(12);
            tp.preempt_at.push((1u64 << e) + r.next() % (1u64 << e));
        }
        threads.push(tp);
    }
    let mut views_b = vec![];
    let mut views_s = vec![];
    for gi in 0..2 {
        for _ in 0..cfg.nviews_b[gi] {
            views_b.push(((gi + 1) as u8, r.below(10), r.below(12)));
        }
        for _ in 0..cfg.nviews_s[gi] {
            views_s.push(((gi + 1) as u8, rk(&mut r)));
        }
    }
    let schedule = if r.chance(3, 4) { Schedule::Random(r.next()) } else { Schedule::RoundRobin(1) };
    SchedPlan { focus: cfg.focus.clone(), threads, views_b, views_s, nshared_ctx: cfg.nshared, yield_mask: tok::Y_ALL, schedule }
}

/// "Long" scenario number `idx`: see `GenCfg::long`.
pub fn gen_long(seed: u64, idx: usize, cfg: &GenCfg) -> SchedPlan {
    let mut r = Rng::new(seed);
    let fams = wide_fams(cfg);
    let kinds = wide_kinds(cfg);
    let (kind, fi) = kinds[idx % kinds.len()].clone();
    let f = fams[fi];
    let mut variants: Vec<Op> = vec![];
    for _ in 0..400 {
        let v = (f.gen)(&mut r, cfg);
        if v.k == kind && !variants.contains(&v) {
            variants.push(v);
            if variants.len() == 3 {
                break;
            }
        }
    }
    if variants.is_empty() {
        variants.push((f.gen)(&mut r, cfg));
    }
    let mult = if kind.starts_with("g2_") { 3 } else { 1 };
    let n = (cfg.long as u64).min(cfg.long_budget_us / (f.cost as u64 * mult).max(1)).max(8) as usize;
    let mut threads = vec![];
    for t in 0..2 {
        let reps = if t == 0 { n } else { n / 3 };
        let ops: Vec<Op> = (0..reps).map(|_| if r.chance(4, 5) { variants[0].clone() } else { r.pick(&variants).clone() }).collect();
        threads.push(ThreadPlan { ops, ..Default::default() });
    }
    let mut views_b = vec![];
    let mut views_s = vec![];
    for gi in 0..2 {
        for _ in 0..cfg.nviews_b[gi] {
            views_b.push(((gi + 1) as u8, r.below(10), r.below(12)));
        }
        for _ in 0..cfg.nviews_s[gi] {
            views_s.push(((gi + 1) as u8, rk(&mut r)));
        }
    }
    let schedule = if r.chance(1, 2) { Schedule::Sequential } else { Schedule::Random(r.next()) };
    SchedPlan { focus: cfg.focus.clone(), threads, views_b, views_s, nshared_ctx: cfg.nshared, yield_mask: 0, schedule }
}

/// One seeded scenario (swarm style: thread count, op mix, fault kinds, seams, scheduler vary per run)
pub fn gen_plan(seed: u64, cfg: &GenCfg) -> SchedPlan {
    let mut r = Rng::new(seed);
    let nthreads = match r.below(20) {
        0 => 1,
        1..=5 => 2,
        6..=10 => 3,
        11..=13 => 4,
        14..=17 => r.range(5, 8),
        _ => r.range(9, 16),
    };
    let nthreads = if cfg.max_threads > 0 { nthreads.min(cfg.max_threads) } else { nthreads };
    let mut fams: Vec<&Fam> = if cfg.focus == "wnaf" { FAMS.iter().filter(|f| WNAF_FAMS.contains(&f.name)).collect() } else { FAMS.iter().collect() };
    if !cfg.only_fams.is_empty() {
        fams.retain(|f| cfg.only_fams.iter().any(|n| n == f.name));
    }
    let mut enabled: Vec<&Fam> = fams.iter().copied().filter(|_| r.chance(2, 5)).collect();
    while enabled.len() < 2 {
        enabled.push(*r.pick(&fams));
    }
    let mut budget: i64 = if cfg.max_window > 16 { 1 } else if cfg.focus == "wnaf" { 30_000 } else { 40_000 }; // microseconds of estimated work per run
    let mut threads = vec![];
    for _ in 0..nthreads {
        let nops = match r.below(8) {
            0..=2 => r.range(1, 2),
            3..=5 => r.range(3, 5),
            _ => r.range(6, 8),
        };
        let mut ops = vec![];
        for _ in 0..nops {
            if budget <= 0 && !ops.is_empty() {
                break;
            }
            let f = *r.pick(&enabled);
            let op = (f.gen)(&mut r, cfg);
            let mult = if op.k.starts_with("g2_") { 3 } else { 1 };
            budget -= (f.cost * mult) as i64;
            ops.push(op);
        }
        threads.push(ThreadPlan { ops, ..Default::default() });
    }
    // cache-stress variant (15% of the runs): two variants of ONE operation kind (same call, different
    // arguments) repeated by 2-4 threads, each thread mostly sticking to one variant - the access pattern
    // under which a memo table, a "last value" cache or a lazily built table keyed or locked wrongly
    // hands one caller the other caller's answer. Prepared elements and wNAF state are named by the
    // property, so their families are three times as likely to be chosen.
    let stress = cfg.fresh || r.chance(3, 20);
    if stress {
        let mut weighted: Vec<&Fam> = vec![];
        for f in fams.iter() {
            let w = if ["prepare", "pairing", "miller", "wnaf_bs", "wnaf_sb", "wnaf_view", "pre3", "pre256", "h2c", "h2f"].contains(&f.name) { 3 } else { 1 };
            for _ in 0..w {
                weighted.push(*f);
            }
        }
        let f = *r.pick(&weighted);
        let v1 = (f.gen)(&mut r, cfg);
        let mut v2 = (f.gen)(&mut r, cfg);
        for _ in 0..20 {
            if v2.k == v1.k && v2 != v1 {
                break;
            }
            v2 = (f.gen)(&mut r, cfg);
        }
        // half of the time the second variant is a NEIGHBOUR of the first: the same call with exactly one
        // argument changed (what a memo keyed on only some of the arguments confuses)
        if r.chance(1, 2) && !v1.a.is_empty() {
            if let Some(n) = neighbour(&v1, f, r.below(v1.a.len()), &mut r, cfg) {
                v2 = n;
            }
        }
        let nt = r.range(2, 4).min(if cfg.max_threads > 0 { cfg.max_threads.max(2) } else { 4 });
        threads.clear();
        for t in 0..nt {
            let n = r.range(3, 6);
            let ops = (0..n).map(|_| if r.chance(4, 5) == (t % 2 == 0) { v1.clone() } else { v2.clone() }).collect();
            threads.push(ThreadPlan { ops, ..Default::default() });
        }
    }
    let nthreads = threads.len();
    // contention variant: a third of the runs repeat two or three operations everywhere, so that
    // caches, lazily built tables and reused buffers see the same keys from several threads
    if !stress && r.chance(1, 3) {
        let all: Vec<Op> = threads.iter().flat_map(|t| t.ops.iter().cloned()).collect();
        let k = r.range(2, 3).min(all.len());
        let hot: Vec<Op> = (0..k).map(|_| r.pick(&all).clone()).collect();
        for t in threads.iter_mut() {
            for o in t.ops.iter_mut() {
                *o = r.pick(&hot).clone();
            }
        }
    }
    // faults: most runs have none or one
    let nshared = cfg.nshared;
    match r.below(10) {
        0 => {
            let t = r.below(nthreads);
            let n = threads[t].ops.len();
            threads[t].die_after = Some(r.below(n));
        }
        1 => {
            let t = r.below(nthreads);
            let n = threads[t].ops.len();
            threads[t].stall_after = Some(r.below(n));
        }
        2 => {
            let t = r.below(nthreads);
            let n = threads[t].ops.len();
            threads[t].exit_after = Some(r.below(n));
        }
        3 => {
            // die between the two wNAF stages, holding a shared lock if one exists
            let t = r.below(nthreads);
            let at = r.below(threads[t].ops.len() + 1);
            let sel = if nshared > 0 { 1 + r.below(nshared) } else { 0 };
            threads[t].ops.insert(at, gop("wnaf_poison", &[sel, rk(&mut r)], &mut r));
            threads[t].ops.truncate(at + 1);
        }
        _ => {}
    }
    // arbitrary preemption (instrumented build only): in half of the runs, one to three threads are
    // preempted at a function entry chosen log-uniformly among their first 2^22 - wherever that is:
    // in the middle of a table fill, between two field operations, inside a lazy initialisation
    if cfg.fresh {
        for t in 0..threads.len() {
            for _ in 0..4 {
                let e = 6 + r.below(13);
                threads[t].preempt_at.push((1u64 << e) + r.next() % (1u64 << e));
            }
        }
    } else if r.chance(1, 2) {
        for _ in 0..r.range(1, 3) {
            let t = r.below(threads.len());
            let e = r.below(23);
            threads[t].preempt_at.push((1u64 << e) + r.next() % (1u64 << e));
        }
    }
    let yield_mask = match r.below(10) {
        0..=2 => 0,
        3..=5 => tok::Y_ALL,
        _ => (r.next() as u32) & tok::Y_ALL,
    };
    let schedule = match r.below(20) {
        0..=9 => Schedule::Random(r.next()),
        10..=14 => Schedule::Pct(r.next(), r.range(1, 3)),
        15..=17 => Schedule::RoundRobin(r.range(1, 4)),
        _ => Schedule::Sequential,
    };
    let mut views_b = vec![];
    let mut views_s = vec![];
    for gi in 0..2 {
        for _ in 0..cfg.nviews_b[gi] {
            views_b.push(((gi + 1) as u8, r.below(10), r.below(12)));
        }
        for _ in 0..cfg.nviews_s[gi] {
            views_s.push(((gi + 1) as u8, rk(&mut r)));
        }
    }
    SchedPlan { focus: cfg.focus.clone(), threads, views_b, views_s, nshared_ctx: nshared, yield_mask, schedule }
}

/// the fixed catalogue used by the sequential forward/reverse self-check
/// `v` with exactly argument `j` replaced by a value the family's generator produces there
fn neighbour(v: &Op, f: &Fam, j: usize, r: &mut Rng, cfg: &GenCfg) -> Option<Op> {
    for _ in 0..200 {
        let w = (f.gen)(r, cfg);
        if w.k == v.k && w.a.len() == v.a.len() && w.a[j] != v.a[j] {
            let mut n = v.clone();
            n.a[j] = w.a[j];
            return Some(n);
        }
    }
    None
}

/// For every operation kind and every argument position: a call, the same call with that one argument
/// changed, and both again - on one thread, in both orders. Systematic where the seeded scenarios sample.
pub fn neighbour_catalogue(cfg: &GenCfg) -> Vec<Op> {
    let mut r = Rng::new(0x6e65_6967_6862);
    let fams: Vec<&Fam> = if cfg.focus == "wnaf" { FAMS.iter().filter(|f| WNAF_FAMS.contains(&f.name)).collect() } else { FAMS.iter().collect() };
    let mut out = vec![];
    let mut seen: Vec<(String, usize)> = vec![];
    for f in fams {
        if f.name == "expected_panic" {
            continue;
        }
        for _ in 0..60 {
            let mut v = (f.gen)(&mut r, cfg);
            if is_ctx_op(&v.k) && !v.a.is_empty() {
                v.a[0] = 0;
            }
            // keep the big sizes out of this pass
            if (v.k.ends_with("_sop") || v.k.ends_with("_pip")) && v.a[0] >= 7 {
                continue;
            }
            if v.k.ends_with("batchnorm") && v.a[1] >= 6 {
                continue;
            }
            for j in 0..v.a.len() {
                if is_ctx_op(&v.k) && j == 0 {
                    continue;
                }
                if seen.iter().any(|(k, p)| *k == v.k && *p == j) {
                    continue;
                }
                if let Some(n) = neighbour(&v, f, j, &mut r, cfg) {
                    if (n.k.ends_with("_sop") || n.k.ends_with("_pip")) && n.a[0] >= 7 {
                        continue;
                    }
                    if n.k.ends_with("batchnorm") && n.a[1] >= 6 {
                        continue;
                    }
                    seen.push((v.k.clone(), j));
                    out.extend_from_slice(&[v.clone(), n.clone(), v.clone(), n.clone(), n, v.clone()]);
                }
            }
        }
    }
    out
}

/// C02: every multiplication path with every hand-made scalar whose pool index is `shard` mod `of`
/// (the seeded scenarios sample the pool; a path that is wrong for ONE scalar must not depend on luck)
pub fn scalar_sweep(shard: usize, of: usize, with_256: bool) -> Vec<Op> {
    let sc = &spools().scalars;
    let nh = crate::spool::n_hand();
    let mut out = vec![];
    for k in (0..nh).filter(|k| k % of == shard) {
        let lt = sc[k].lt255;
        for g in ["g1", "g2"] {
            let p = 1 + (k / of) % 5;
            let q = 6 + (k / of) % 5; // special-Z and non-subgroup pool points for the plain paths
            let mut push = |name: &str, a: &[usize]| out.push(Op::new(&format!("{}_{}", g, name), a));
            push("mul", &[p, k]);
            push("mul", &[q, k]);
            push("amul", &[p, k]);
            push("amul", &[q, k]);
            push("ymul", &[p, k]);
            push("mul3", &[p, k]);
            push("mul_re", &[p, k, (k / of) % 4]);
            if with_256 {
                push("mul256", &[p, k]);
            }
            if lt {
                push("wnaf_sb", &[0, k, p]);
                push("wnaf_bs", &[0, p, (k / of) % 9, k]);
                push("wnaf_raw", &[p, k, (k / of) % 7, 0]);
            }
        }
    }
    out
}

pub fn catalogue(cfg: &GenCfg) -> Vec<Op> {
    let mut r = Rng::new(0xca7a_1096);
    let mut v = vec![];
    for f in FAMS.iter() {
        for _ in 0..6 {
            let mut op = (f.gen)(&mut r, cfg);
            if is_ctx_op(&op.k) && !op.a.is_empty() {
                op.a[0] = 0;
            }
            if !v.contains(&op) {
                v.push(op);
            }
        }
    }
    v
}

// ---- re-exports for the Miri engine
pub fn ensure_refs_pub(plan: &SchedPlan, refs: &mut Refs, ref_shared: &Shared) {
    ensure_refs(plan, refs, ref_shared)
}
pub fn with_objs_pub<R>(plan: &SchedPlan, n: usize, f: impl FnOnce(Vec<ThreadObjs>) -> R) -> R {
    with_objs(plan, n, f)
}
pub fn eval_caught_pub(op: &Op, sh: &Shared, rs: &RunShared, tl: &mut ThreadObjs) -> (Outcome, Vec<Claim>) {
    eval_caught(op, sh, rs, tl)
}
pub fn view_key_pub(plan: &SchedPlan, op: &Op) -> String {
    view_key(plan, op)
}
