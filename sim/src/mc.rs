//! Glue between the scheduler and the function-entry hook crate `mchook` (Engine B', DESIGN §3.2b).
//! In the instrumented build (tools/rustc_mc_wrapper.sh) the library crate AND this harness
//! crate are compiled with `-Z instrument-mcount` and inlining disabled, so every function of
//! pairing-plus and every instantiation of its generic functions (which live in this crate:
//! `mul_assign::<FrRepr>`, `mul_precomp_3::<FrRepr>`, `serialize::<W>`, ... together with the std
//! generics they call: `Mutex::lock`, `RwLock::read/write`, `Once::call_once`, `LocalKey::with`,
//! atomics, guard drops) calls `mchook::mcount` on entry. At start-up this module parses the
//! process's own ELF symbol table and hands `mchook` the address ranges of the synchronisation
//! functions whose (mangled) name mentions pairing-plus; entries of those are scheduling points.
//! In the ordinary build everything here is inert.

use crate::tok::Sim;
use std::sync::atomic::Ordering;
use std::sync::OnceLock;

pub struct Table {
    pub ranges: Vec<(usize, usize)>,
    pub names: Vec<String>,
}

pub fn instrumented() -> bool {
    mchook::instrumented()
}

fn rd16(b: &[u8], o: usize) -> usize {
    u16::from_le_bytes([b[o], b[o + 1]]) as usize
}
fn rd32(b: &[u8], o: usize) -> usize {
    u32::from_le_bytes([b[o], b[o + 1], b[o + 2], b[o + 3]]) as usize
}
fn rd64(b: &[u8], o: usize) -> usize {
    let mut a = [0u8; 8];
    a.copy_from_slice(&b[o..o + 8]);
    u64::from_le_bytes(a) as usize
}

/// is this (mangled) symbol a synchronisation function working on library types?
fn is_sync_name(n: &str) -> bool {
    // path components of std::sync / core::sync / alloc::sync, std::thread (LocalKey, spawn, park,
    // yield_now), once-cells and lazies; legacy and v0 mangling both keep identifiers in clear
    const PAT: [&str; 9] = ["4sync", "6thread", "LocalKey", "9once_cell", "OnceCell", "OnceLock", "LazyLock", "LazyCell", "4lazy"];
    // the harness's own scheduler state never mentions a library type; its per-run shared wNAF
    // contexts (Mutex<Wnaf<..>>) do, and may be scheduling points like any other lock
    n.contains("pairing_plus") && PAT.iter().any(|p| n.contains(p))
}

pub fn table() -> &'static Table {
    static T: OnceLock<Table> = OnceLock::new();
    T.get_or_init(|| {
        let mut t = Table { ranges: vec![], names: vec![] };
        if !instrumented() {
            return t;
        }
        let exe = match std::fs::read("/proc/self/exe") {
            Ok(b) => b,
            Err(_) => return t,
        };
        if exe.len() < 64 || &exe[..4] != b"\x7fELF" || exe[4] != 2 {
            return t;
        }
        let e_type = rd16(&exe, 0x10);
        let mut base = 0usize;
        if e_type == 3 {
            // PIE: runtime address = load base + st_value
            let path = std::fs::read_link("/proc/self/exe").ok().map(|p| p.to_string_lossy().to_string()).unwrap_or_default();
            if let Ok(maps) = std::fs::read_to_string("/proc/self/maps") {
                for l in maps.lines() {
                    if l.ends_with(&path) {
                        if let Some(a) = l.split('-').next() {
                            base = usize::from_str_radix(a, 16).unwrap_or(0);
                        }
                        break;
                    }
                }
            }
        }
        let shoff = rd64(&exe, 0x28);
        let shentsize = rd16(&exe, 0x3a);
        let shnum = rd16(&exe, 0x3c);
        for i in 0..shnum {
            let sh = shoff + i * shentsize;
            if sh + 64 > exe.len() {
                break;
            }
            if rd32(&exe, sh + 4) != 2 {
                continue; // not SHT_SYMTAB
            }
            let off = rd64(&exe, sh + 0x18);
            let size = rd64(&exe, sh + 0x20);
            let link = rd32(&exe, sh + 0x28);
            let entsize = rd64(&exe, sh + 0x38).max(24);
            let strsh = shoff + link * shentsize;
            let stroff = rd64(&exe, strsh + 0x18);
            let strsize = rd64(&exe, strsh + 0x20);
            let mut k = 0;
            while k + entsize <= size {
                let s = off + k;
                k += entsize;
                let info = exe[s + 4];
                if info & 0xf != 2 {
                    continue; // not STT_FUNC
                }
                let value = rd64(&exe, s + 8);
                let sz = rd64(&exe, s + 16);
                if sz == 0 {
                    continue;
                }
                let nm = rd32(&exe, s);
                if nm >= strsize {
                    continue;
                }
                let start = stroff + nm;
                let end = exe[start..].iter().position(|c| *c == 0).map(|p| start + p).unwrap_or(start);
                let name = String::from_utf8_lossy(&exe[start..end]).to_string();
                if is_sync_name(&name) {
                    t.ranges.push((base + value, base + value + sz));
                    t.names.push(name);
                }
            }
        }
        let mut idx: Vec<usize> = (0..t.ranges.len()).collect();
        idx.sort_by_key(|i| t.ranges[*i].0);
        t.ranges = idx.iter().map(|i| t.ranges[*i]).collect();
        t.names = idx.iter().map(|i| t.names[*i].clone()).collect();
        t
    })
}

/// (synchronisation functions on library types: all, instantiated by the library crate itself, a few names)
pub fn sync_functions() -> (usize, usize, Vec<String>) {
    let t = table();
    let in_lib = t.names.iter().filter(|n| !n.split('.').next().unwrap_or("").ends_with("6pp_sim")).count();
    // list library-side ones first
    let mut names: Vec<String> = t.names.iter().filter(|n| !n.split('.').next().unwrap_or("").ends_with("6pp_sim")).cloned().collect();
    names.extend(t.names.iter().filter(|n| n.split('.').next().unwrap_or("").ends_with("6pp_sim")).cloned());
    (t.ranges.len(), in_lib, names.into_iter().take(12).collect())
}

fn cb_rejoin(ctx: *const (), me: usize) -> bool {
    let sim: &Sim = unsafe { &*(ctx as *const Sim) };
    if sim.revoked[me].load(Ordering::Relaxed) {
        crate::tok::rejoin(sim, me);
        true
    } else {
        false
    }
}
fn cb_any_revoked(ctx: *const ()) -> bool {
    let sim: &Sim = unsafe { &*(ctx as *const Sim) };
    sim.outstanding.load(Ordering::Relaxed) > 0
}
fn cb_holder_settle(ctx: *const (), me: usize) {
    let sim: &Sim = unsafe { &*(ctx as *const Sim) };
    sim.holder_settle(me);
}
fn cb_preempt(ctx: *const (), me: usize) {
    let sim: &Sim = unsafe { &*(ctx as *const Sim) };
    crate::tok::forced_yield(sim, me);
}
fn cb_sync_point(ctx: *const (), me: usize) {
    let sim: &Sim = unsafe { &*(ctx as *const Sim) };
    crate::tok::sync_point(sim, me);
}

pub fn activate(sim: *const Sim, me: usize) {
    if instrumented() && !mchook::installed() {
        let t = table();
        mchook::install(
            t.ranges.clone(),
            mchook::Callbacks { rejoin_if_revoked: cb_rejoin, any_revoked: cb_any_revoked, holder_settle: cb_holder_settle, sync_point: cb_sync_point, preempt: cb_preempt },
        );
    }
    mchook::activate(sim as *const (), me);
}
pub fn deactivate() {
    mchook::deactivate();
}
pub fn pause() {
    mchook::pause();
}
pub fn resume() {
    mchook::resume();
}
pub fn with_hook_disabled<R>(f: impl FnOnce() -> R) -> R {
    mchook::with_hook_disabled(f)
}
pub fn set_preempts(v: Vec<u64>) {
    mchook::set_preempts(v);
}
