//! Function-entry hook of the sync-point engine (Engine B'). In the instrumented build
//! (tools/rustc_mc_wrapper.sh: the library crate is compiled with `-Z instrument-mcount`
//! and inlining disabled) every function of pairing-plus — including the std generics it
//! instantiates, e.g. `Mutex::lock`, `RwLock::write`, `Once::call_once`, `LocalKey::with`,
//! `drop_in_place::<MutexGuard<_>>` — calls `mcount` on entry. The harness is not
//! instrumented. The hook does two things:
//!   * a thread whose token was revoked while it slept on a lock parks at the very next
//!     function entry after it wakes up;
//!   * the entry of a synchronisation function is a scheduling point of the seeded scheduler.
//! In the ordinary build this module is inert.

use crate::tok::Sim;
use std::cell::Cell;

thread_local! {
    static ACTIVE: Cell<bool> = const { Cell::new(false) };
    static IN_HOOK: Cell<bool> = const { Cell::new(false) };
    static SIM: Cell<*const Sim> = const { Cell::new(std::ptr::null()) };
    static ME: Cell<usize> = const { Cell::new(0) };
    /// function entries left in the window after a synchronisation-function entry during which the
    /// token holder checks whether one of its unlocks has woken a revoked thread
    static SETTLE_WINDOW: Cell<u32> = const { Cell::new(0) };
}

pub fn activate(sim: *const Sim, me: usize) {
    SIM.with(|s| s.set(sim));
    ME.with(|m| m.set(me));
    if cfg!(pp_mcount) {
        #[cfg(pp_mcount)]
        imp::table();
        ACTIVE.with(|a| a.set(true));
    }
}
pub fn deactivate() {
    ACTIVE.with(|a| a.set(false));
    SIM.with(|s| s.set(std::ptr::null()));
}

pub fn instrumented() -> bool {
    cfg!(pp_mcount)
}

/// (number of synchronisation functions found in the binary, a few of their names)
pub fn sync_functions() -> (usize, Vec<String>) {
    #[cfg(pp_mcount)]
    {
        let t = imp::table();
        return (t.ranges.len(), t.names.iter().take(12).cloned().collect());
    }
    #[cfg(not(pp_mcount))]
    (0, vec![])
}

#[cfg(pp_mcount)]
mod imp {
    use super::*;
    use std::sync::atomic::Ordering;
    use std::sync::OnceLock;

    pub struct Table {
        /// sorted, disjoint [start, end) runtime address ranges of synchronisation functions
        pub ranges: Vec<(usize, usize)>,
        pub names: Vec<String>,
    }

    fn rd16(b: &[u8], o: usize) -> usize {
        u16::from_le_bytes([b[o], b[o + 1]]) as usize
    }
    fn rd32(b: &[u8], o: usize) -> usize {
        u32::from_le_bytes([b[o], b[o + 1], b[o + 2], b[o + 3]]) as usize
    }
    fn rd64(b: &[u8], o: usize) -> usize {
        let mut a = [0u8; 8];
        a.copy_from_slice(&b[o..o + 8]);
        u64::from_le_bytes(a) as usize
    }

    /// is this (mangled) symbol a synchronisation function instantiated in the library?
    fn is_sync_name(n: &str) -> bool {
        // path components of std::sync / core::sync / alloc::sync, std::thread (LocalKey, spawn,
        // park, yield_now), once-cells and lazies; legacy and v0 mangling both keep identifiers
        const PAT: [&str; 9] = ["4sync", "6thread", "LocalKey", "9once_cell", "OnceCell", "OnceLock", "LazyLock", "LazyCell", "4lazy"];
        PAT.iter().any(|p| n.contains(p))
    }

    pub fn table() -> &'static Table {
        static T: OnceLock<Table> = OnceLock::new();
        T.get_or_init(|| {
            let mut t = Table { ranges: vec![], names: vec![] };
            let exe = match std::fs::read("/proc/self/exe") {
                Ok(b) => b,
                Err(_) => return t,
            };
            if exe.len() < 64 || &exe[..4] != b"\x7fELF" || exe[4] != 2 {
                return t;
            }
            let e_type = rd16(&exe, 0x10);
            let mut base = 0usize;
            if e_type == 3 {
                // PIE: runtime address = load base + st_value
                let path = std::fs::read_link("/proc/self/exe").ok().map(|p| p.to_string_lossy().to_string()).unwrap_or_default();
                if let Ok(maps) = std::fs::read_to_string("/proc/self/maps") {
                    for l in maps.lines() {
                        if l.ends_with(&path) {
                            if let Some(a) = l.split('-').next() {
                                base = usize::from_str_radix(a, 16).unwrap_or(0);
                            }
                            break;
                        }
                    }
                }
            }
            let shoff = rd64(&exe, 0x28);
            let shentsize = rd16(&exe, 0x3a);
            let shnum = rd16(&exe, 0x3c);
            for i in 0..shnum {
                let sh = shoff + i * shentsize;
                if sh + 64 > exe.len() {
                    break;
                }
                if rd32(&exe, sh + 4) != 2 {
                    continue; // not SHT_SYMTAB
                }
                let off = rd64(&exe, sh + 0x18);
                let size = rd64(&exe, sh + 0x20);
                let link = rd32(&exe, sh + 0x28);
                let entsize = rd64(&exe, sh + 0x38).max(24);
                let strsh = shoff + link * shentsize;
                let stroff = rd64(&exe, strsh + 0x18);
                let strsize = rd64(&exe, strsh + 0x20);
                let mut k = 0;
                while k + entsize <= size {
                    let s = off + k;
                    k += entsize;
                    let info = exe[s + 4];
                    if info & 0xf != 2 {
                        continue; // not STT_FUNC
                    }
                    let value = rd64(&exe, s + 8);
                    let sz = rd64(&exe, s + 16);
                    if sz == 0 {
                        continue;
                    }
                    let nm = rd32(&exe, s);
                    if nm >= strsize {
                        continue;
                    }
                    let start = stroff + nm;
                    let end = exe[start..].iter().position(|c| *c == 0).map(|p| start + p).unwrap_or(start);
                    let name = String::from_utf8_lossy(&exe[start..end]).to_string();
                    // only functions instantiated in the (instrumented) library crate call the hook
                    let stem = name.split('.').next().unwrap_or("");
                    if name.contains("pairing_plus") && !stem.ends_with("6pp_sim") && is_sync_name(&name) {
                        t.ranges.push((base + value, base + value + sz));
                        t.names.push(name);
                    }
                }
            }
            let mut idx: Vec<usize> = (0..t.ranges.len()).collect();
            idx.sort_by_key(|i| t.ranges[*i].0);
            t.ranges = idx.iter().map(|i| t.ranges[*i]).collect();
            t.names = idx.iter().map(|i| t.names[*i].clone()).collect();
            t
        })
    }

    #[inline(always)]
    fn is_sync_addr(ra: usize) -> bool {
        let r = &table().ranges;
        if r.is_empty() {
            return false;
        }
        // last range with start <= ra
        let i = r.partition_point(|x| x.0 <= ra);
        i > 0 && ra < r[i - 1].1
    }

    /// The function-entry hook. Called by every instrumented function of the library crate.
    #[no_mangle]
    #[inline(never)]
    pub extern "C" fn mcount() {
        let ra: usize;
        unsafe {
            core::arch::asm!("mov {}, [rbp + 8]", out(reg) ra, options(nostack, readonly, preserves_flags));
        }
        if !ACTIVE.with(|a| a.get()) {
            return;
        }
        if IN_HOOK.with(|h| h.replace(true)) {
            return;
        }
        let sim = SIM.with(|s| s.get());
        if !sim.is_null() {
            let sim: &Sim = unsafe { &*sim };
            let me = ME.with(|m| m.get());
            let sync = is_sync_addr(ra);
            if sim.revoked[me].load(Ordering::Relaxed) {
                crate::tok::rejoin(sim, me);
            } else if sim.outstanding.load(Ordering::Relaxed) > 0 {
                // an unlock happens inside a synchronisation function; the thread it wakes must be
                // settled before the token holder goes on: check at the next few function entries
                let w = SETTLE_WINDOW.with(|c| c.get());
                if sync || w > 0 {
                    sim.holder_settle(me);
                    SETTLE_WINDOW.with(|c| c.set(if sync { 48 } else { w - 1 }));
                }
            }
            if sync {
                crate::tok::sync_point(sim, me);
            }
        }
        IN_HOOK.with(|h| h.set(false));
    }
}
