//! Reference model of the SerDes wire format (DESIGN §3.1.3): value descriptors,
//! expected encodings (`enc`) and expected decode results (`dec`).

use crate::json::J;
use crate::util::{be_lt, hex, unhex, Rng, Q_HEX, R_HEX};
use ff_zeroize::{Field, PrimeField};
use pairing_plus::bls12_381::{
    transmute, Fq, Fq12, Fq2, Fq6, FqRepr, Fr, FrRepr, G1Affine, G1Compressed, G1Uncompressed, G2Affine, G2Compressed,
    G2Uncompressed, G1, G2,
};
use pairing_plus::serdes::SerDes;
use pairing_plus::{CurveAffine, CurveProjective, EncodedPoint};

#[derive(Clone, Copy, PartialEq, Eq, Debug, Hash, PartialOrd, Ord)]
pub enum Ty {
    Fr,
    Fq12,
    G1,
    G2,
    G1A,
    G2A,
}

pub const ALL_TY: [Ty; 6] = [Ty::Fr, Ty::Fq12, Ty::G1, Ty::G2, Ty::G1A, Ty::G2A];

impl Ty {
    pub fn name(self) -> &'static str {
        match self {
            Ty::Fr => "Fr",
            Ty::Fq12 => "Fq12",
            Ty::G1 => "G1",
            Ty::G2 => "G2",
            Ty::G1A => "G1Affine",
            Ty::G2A => "G2Affine",
        }
    }
    pub fn parse(s: &str) -> Result<Ty, String> {
        ALL_TY.iter().copied().find(|t| t.name() == s).ok_or_else(|| format!("bad type {}", s))
    }
    /// the documented record length
    pub fn len(self, c: bool) -> usize {
        match self {
            Ty::Fr => 32,
            Ty::Fq12 => 576,
            Ty::G1 | Ty::G1A => {
                if c {
                    48
                } else {
                    96
                }
            }
            Ty::G2 | Ty::G2A => {
                if c {
                    96
                } else {
                    192
                }
            }
        }
    }
    pub fn is_point(self) -> bool {
        !matches!(self, Ty::Fr | Ty::Fq12)
    }
    pub fn is_g1(self) -> bool {
        matches!(self, Ty::G1 | Ty::G1A)
    }
    /// the wire-compatible sibling (projective <-> affine), if any
    pub fn sibling(self) -> Option<Ty> {
        match self {
            Ty::G1 => Some(Ty::G1A),
            Ty::G1A => Some(Ty::G1),
            Ty::G2 => Some(Ty::G2A),
            Ty::G2A => Some(Ty::G2),
            _ => None,
        }
    }
}

#[derive(Clone, Debug)]
pub enum Value {
    Fr(Fr),
    Fq12(Fq12),
    G1(G1),
    G2(G2),
    G1A(G1Affine),
    G2A(G2Affine),
}

impl Value {
    pub fn ty(&self) -> Ty {
        match self {
            Value::Fr(_) => Ty::Fr,
            Value::Fq12(_) => Ty::Fq12,
            Value::G1(_) => Ty::G1,
            Value::G2(_) => Ty::G2,
            Value::G1A(_) => Ty::G1A,
            Value::G2A(_) => Ty::G2A,
        }
    }
    /// equality "as the same value": projective points as the same point
    pub fn same(&self, o: &Value) -> bool {
        match (self, o) {
            (Value::Fr(a), Value::Fr(b)) => a == b,
            (Value::Fq12(a), Value::Fq12(b)) => a == b,
            (Value::G1(a), Value::G1(b)) => a == b && a.into_affine() == b.into_affine(),
            (Value::G2(a), Value::G2(b)) => a == b && a.into_affine() == b.into_affine(),
            (Value::G1A(a), Value::G1A(b)) => a == b,
            (Value::G2A(a), Value::G2A(b)) => a == b,
            _ => false,
        }
    }
    /// same point irrespective of projective/affine container (wire-compatible read)
    pub fn same_point(&self, o: &Value) -> bool {
        match (self.affine1(), o.affine1()) {
            (Some(a), Some(b)) => return a == b,
            _ => {}
        }
        match (self.affine2(), o.affine2()) {
            (Some(a), Some(b)) => a == b,
            _ => false,
        }
    }
    fn affine1(&self) -> Option<G1Affine> {
        match self {
            Value::G1(p) => Some(p.into_affine()),
            Value::G1A(p) => Some(*p),
            _ => None,
        }
    }
    fn affine2(&self) -> Option<G2Affine> {
        match self {
            Value::G2(p) => Some(p.into_affine()),
            Value::G2A(p) => Some(*p),
            _ => None,
        }
    }
    pub fn short(&self) -> String {
        match self {
            Value::Fr(f) => format!("Fr({})", hex(&fr_be(f))),
            Value::Fq12(f) => format!("Fq12(c000={})", hex(&fq_be(&f.c0.c0.c0)[40..])),
            Value::G1(p) => format!("G1({})", hex(&p.into_affine().into_compressed().as_ref()[..8])),
            Value::G2(p) => format!("G2({})", hex(&p.into_affine().into_compressed().as_ref()[..8])),
            Value::G1A(p) => format!("G1Affine({})", hex(&p.into_compressed().as_ref()[..8])),
            Value::G2A(p) => format!("G2Affine({})", hex(&p.into_compressed().as_ref()[..8])),
        }
    }
}

pub fn fr_be(f: &Fr) -> [u8; 32] {
    let r = f.into_repr();
    let mut o = [0u8; 32];
    for i in 0..4 {
        let limb = r.0[3 - i];
        for j in 0..8 {
            o[i * 8 + j] = (limb >> (56 - 8 * j)) as u8;
        }
    }
    o
}

pub fn fq_be(f: &Fq) -> [u8; 48] {
    let r = f.into_repr();
    let mut o = [0u8; 48];
    for i in 0..6 {
        let limb = r.0[5 - i];
        for j in 0..8 {
            o[i * 8 + j] = (limb >> (56 - 8 * j)) as u8;
        }
    }
    o
}

pub fn fr_from_be(b: &[u8]) -> Option<Fr> {
    let mut l = [0u64; 4];
    for i in 0..4 {
        let mut v = 0u64;
        for j in 0..8 {
            v = (v << 8) | b[i * 8 + j] as u64;
        }
        l[3 - i] = v;
    }
    Fr::from_repr(FrRepr(l)).ok()
}

pub fn fq_from_be(b: &[u8]) -> Option<Fq> {
    let mut l = [0u64; 6];
    for i in 0..6 {
        let mut v = 0u64;
        for j in 0..8 {
            v = (v << 8) | b[i * 8 + j] as u64;
        }
        l[5 - i] = v;
    }
    Fq::from_repr(FqRepr(l)).ok()
}

pub fn fq12_coeffs(f: &Fq12) -> [Fq; 12] {
    [
        f.c0.c0.c0, f.c0.c0.c1, f.c0.c1.c0, f.c0.c1.c1, f.c0.c2.c0, f.c0.c2.c1, f.c1.c0.c0, f.c1.c0.c1, f.c1.c1.c0,
        f.c1.c1.c1, f.c1.c2.c0, f.c1.c2.c1,
    ]
}

pub fn fq12_from(c: &[Fq; 12]) -> Fq12 {
    Fq12 {
        c0: Fq6 { c0: Fq2 { c0: c[0], c1: c[1] }, c1: Fq2 { c0: c[2], c1: c[3] }, c2: Fq2 { c0: c[4], c1: c[5] } },
        c1: Fq6 { c0: Fq2 { c0: c[6], c1: c[7] }, c1: Fq2 { c0: c[8], c1: c[9] }, c2: Fq2 { c0: c[10], c1: c[11] } },
    }
}

fn fq_from_rng(r: &mut Rng) -> Fq {
    loop {
        let mut l = [0u64; 6];
        for x in l.iter_mut() {
            *x = r.next();
        }
        l[5] &= 0x1fff_ffff_ffff_ffff;
        if let Ok(f) = Fq::from_repr(FqRepr(l)) {
            return f;
        }
    }
}

pub fn fr_from_rng(r: &mut Rng) -> Fr {
    loop {
        let mut l = [0u64; 4];
        for x in l.iter_mut() {
            *x = r.next();
        }
        l[3] &= 0x7fff_ffff_ffff_ffff;
        if let Ok(f) = Fr::from_repr(FrRepr(l)) {
            return f;
        }
    }
}

/// Value descriptor: a small, self-contained, JSON-serialisable recipe for a value.
#[derive(Clone, Debug, PartialEq)]
pub enum VDesc {
    /// canonical scalar, 32-byte big-endian hex
    Fr(String),
    /// Fq12: "zero" | "one" | "qm1" (every coefficient q-1) | "sparse:<i>" | "seed:<n>"
    Fq12(String),
    /// point [a]*generator with a given as 32-byte big-endian hex (a = 0: identity);
    /// `z`: Z-randomiser for the projective container (0 = normalised); `neg`: negate;
    /// `via`: 0 = the point itself; 1 = the identity obtained by arithmetic as P + (-P) (a projective
    /// identity with left-over X, Y); 2 = the identity obtained as [r]P
    Pt { a: String, z: u64, neg: bool, via: u8 },
}

impl VDesc {
    pub fn to_json(&self) -> J {
        match self {
            VDesc::Fr(h) => J::obj().set("fr", J::s(h)),
            VDesc::Fq12(k) => J::obj().set("fq12", J::s(k)),
            VDesc::Pt { a, z, neg, via } => J::obj().set("a", J::s(a)).set("z", J::Int(*z as i64)).set("neg", J::Bool(*neg)).set("via", J::Int(*via as i64)),
        }
    }
    pub fn from_json(j: &J) -> Result<VDesc, String> {
        if let Some(h) = j.get("fr") {
            return Ok(VDesc::Fr(h.as_str().ok_or("fr")?.to_string()));
        }
        if let Some(h) = j.get("fq12") {
            return Ok(VDesc::Fq12(h.as_str().ok_or("fq12")?.to_string()));
        }
        Ok(VDesc::Pt {
            a: j.str_of("a")?.to_string(),
            z: j.get("z").and_then(|v| v.as_i64()).unwrap_or(0) as u64,
            neg: j.get("neg").and_then(|v| v.as_bool()).unwrap_or(false),
            via: j.get("via").and_then(|v| v.as_i64()).unwrap_or(0) as u8,
        })
    }

    pub fn materialize(&self, ty: Ty) -> Result<Value, String> {
        match (self, ty) {
            (VDesc::Fr(h), Ty::Fr) => {
                let b = unhex(h)?;
                if b.len() != 32 {
                    return Err("fr hex length".into());
                }
                fr_from_be(&b).map(Value::Fr).ok_or_else(|| "fr not canonical".to_string())
            }
            (VDesc::Fq12(k), Ty::Fq12) => {
                let v = if k == "zero" {
                    Fq12::zero()
                } else if k == "one" {
                    Fq12::one()
                } else if k == "qm1" {
                    let mut m = Fq::one();
                    m.negate();
                    fq12_from(&[m; 12])
                } else if let Some(i) = k.strip_prefix("sparse:") {
                    let i: usize = i.parse().map_err(|_| "sparse idx")?;
                    let mut c = [Fq::zero(); 12];
                    let mut r = Rng::new(0x5a5a ^ i as u64);
                    c[i % 12] = fq_from_rng(&mut r);
                    fq12_from(&c)
                } else if let Some(m) = k.strip_prefix("mask:") {
                    // random coefficients where the 12-bit mask has a 1, zero elsewhere (c1 == 0, a zero Fq2, ...)
                    let m: usize = m.parse().map_err(|_| "mask")?;
                    let mut r = Rng::new(0x3a3a ^ m as u64);
                    let mut c = [Fq::zero(); 12];
                    for (j, x) in c.iter_mut().enumerate() {
                        let v = fq_from_rng(&mut r);
                        if (m >> j) & 1 == 1 {
                            *x = v;
                        }
                    }
                    fq12_from(&c)
                } else if let Some(n) = k.strip_prefix("seed:") {
                    let n: u64 = n.parse().map_err(|_| "seed")?;
                    let mut r = Rng::new(n ^ 0xf912);
                    let mut c = [Fq::zero(); 12];
                    for x in c.iter_mut() {
                        *x = fq_from_rng(&mut r);
                    }
                    fq12_from(&c)
                } else {
                    return Err(format!("bad fq12 descriptor {}", k));
                };
                Ok(Value::Fq12(v))
            }
            (VDesc::Pt { a, z, neg, via }, t) if t.is_point() => {
                let b = unhex(a)?;
                if b.len() != 32 {
                    return Err("scalar hex length".into());
                }
                let k = fr_from_be(&b).ok_or("point scalar not canonical")?;
                if t.is_g1() {
                    let mut p = G1::one();
                    p.mul_assign(k);
                    if *neg {
                        p.negate();
                    }
                    if *via != 0 {
                        // an identity produced by arithmetic, not by zero()
                        let mut q = p;
                        if *via == 1 {
                            let mut m = p;
                            m.negate();
                            q.add_assign(&m);
                        } else {
                            q.mul_assign(Fr::char());
                        }
                        return Ok(if t == Ty::G1A { Value::G1A(q.into_affine()) } else { Value::G1(q) });
                    }
                    let aff = p.into_affine();
                    if t == Ty::G1A {
                        return Ok(Value::G1A(aff));
                    }
                    let mut pr = aff.into_projective();
                    if *z != 0 && !aff.is_zero() {
                        // z = 1..=6: structured Z (−1, 2, −2, q−... small); otherwise a random Z from the seed z
                        let mut zz = fq_from_rng(&mut Rng::new(*z));
                        if *z <= 6 {
                            zz = Fq::one();
                            if *z == 2 || *z == 3 || *z == 5 {
                                zz.double();
                            }
                            if *z == 5 || *z == 6 {
                                zz.double();
                                zz.add_assign(&Fq::one());
                            }
                            if *z % 2 == 1 {
                                zz.negate();
                            }
                        }
                        if !zz.is_zero() {
                            let mut z2 = zz;
                            z2.square();
                            let mut z3 = z2;
                            z3.mul_assign(&zz);
                            let (x, y) = aff.as_tuple();
                            let mut xx = *x;
                            xx.mul_assign(&z2);
                            let mut yy = *y;
                            yy.mul_assign(&z3);
                            pr = unsafe { transmute::g1_projective(xx, yy, zz) };
                        }
                    }
                    Ok(Value::G1(pr))
                } else {
                    let mut p = G2::one();
                    p.mul_assign(k);
                    if *neg {
                        p.negate();
                    }
                    if *via != 0 {
                        let mut q = p;
                        if *via == 1 {
                            let mut m = p;
                            m.negate();
                            q.add_assign(&m);
                        } else {
                            q.mul_assign(Fr::char());
                        }
                        return Ok(if t == Ty::G2A { Value::G2A(q.into_affine()) } else { Value::G2(q) });
                    }
                    let aff = p.into_affine();
                    if t == Ty::G2A {
                        return Ok(Value::G2A(aff));
                    }
                    let mut pr = aff.into_projective();
                    if *z != 0 && !aff.is_zero() {
                        let mut rr = Rng::new(*z);
                        let mut zz = Fq2 { c0: fq_from_rng(&mut rr), c1: fq_from_rng(&mut rr) };
                        // z = 1..=6: structured Z: u, b·u, a (real), −1, 1+u, −u; otherwise random
                        let mut m1 = Fq::one();
                        m1.negate();
                        match *z {
                            1 => zz = Fq2 { c0: Fq::zero(), c1: Fq::one() },
                            2 => zz.c0 = Fq::zero(),
                            3 => zz.c1 = Fq::zero(),
                            4 => zz = Fq2 { c0: m1, c1: Fq::zero() },
                            5 => zz = Fq2 { c0: Fq::one(), c1: Fq::one() },
                            6 => zz = Fq2 { c0: Fq::zero(), c1: m1 },
                            _ => {}
                        }
                        if !zz.is_zero() {
                            let mut z2 = zz;
                            z2.square();
                            let mut z3 = z2;
                            z3.mul_assign(&zz);
                            let (x, y) = aff.as_tuple();
                            let mut xx = *x;
                            xx.mul_assign(&z2);
                            let mut yy = *y;
                            yy.mul_assign(&z3);
                            pr = unsafe { transmute::g2_projective(xx, yy, zz) };
                        }
                    }
                    Ok(Value::G2(pr))
                }
            }
            _ => Err(format!("descriptor {:?} does not fit type {}", self, ty.name())),
        }
    }
}

/// call the library's serialize for a value
pub fn lib_serialize<W: std::io::Write>(v: &Value, w: &mut W, c: bool) -> std::io::Result<()> {
    match v {
        Value::Fr(x) => x.serialize(w, c),
        Value::Fq12(x) => x.serialize(w, c),
        Value::G1(x) => x.serialize(w, c),
        Value::G2(x) => x.serialize(w, c),
        Value::G1A(x) => x.serialize(w, c),
        Value::G2A(x) => x.serialize(w, c),
    }
}

/// call the library's deserialize for a type
pub fn lib_deserialize<R: std::io::Read>(ty: Ty, r: &mut R, c: bool) -> std::io::Result<Value> {
    Ok(match ty {
        Ty::Fr => Value::Fr(Fr::deserialize(r, c)?),
        Ty::Fq12 => Value::Fq12(Fq12::deserialize(r, c)?),
        Ty::G1 => Value::G1(G1::deserialize(r, c)?),
        Ty::G2 => Value::G2(G2::deserialize(r, c)?),
        Ty::G1A => Value::G1A(G1Affine::deserialize(r, c)?),
        Ty::G2A => Value::G2A(G2Affine::deserialize(r, c)?),
    })
}

/// Expected bytes of a value. For Fq12 the coefficient order is not pinned by the property:
/// the expected bytes are the library's own fault-free output, validated here to be 576 bytes
/// made of exactly the twelve canonical 48-byte coefficient encodings (any order) that read
/// back to the same value.
pub fn enc(v: &Value, c: bool) -> Result<Vec<u8>, String> {
    match v {
        Value::Fr(f) => Ok(fr_be(f).to_vec()),
        Value::Fq12(f) => {
            let mut out = vec![];
            std::panic::catch_unwind(std::panic::AssertUnwindSafe(|| f.serialize(&mut out, c)))
                .map_err(|_| "Fq12 serialize to Vec panicked".to_string())?
                .map_err(|e| format!("Fq12 serialize to Vec failed: {}", e))?;
            if out.len() != 576 {
                return Err(format!("Fq12 encoding has {} bytes, not 576", out.len()));
            }
            let mut want: Vec<[u8; 48]> = fq12_coeffs(f).iter().map(fq_be).collect();
            let mut got: Vec<[u8; 48]> = out
                .chunks(48)
                .map(|c| {
                    let mut a = [0u8; 48];
                    a.copy_from_slice(c);
                    a
                })
                .collect();
            want.sort();
            got.sort();
            if want != got {
                return Err("Fq12 encoding is not the twelve canonical big-endian coefficients".into());
            }
            let back = Fq12::deserialize(&mut &out[..], c).map_err(|e| format!("Fq12 does not read back: {}", e))?;
            if back != *f {
                return Err("Fq12 reads back as a different value".into());
            }
            Ok(out)
        }
        Value::G1(p) => Ok(enc_g1(&p.into_affine(), c)),
        Value::G1A(p) => Ok(enc_g1(p, c)),
        Value::G2(p) => Ok(enc_g2(&p.into_affine(), c)),
        Value::G2A(p) => Ok(enc_g2(p, c)),
    }
}

pub fn enc_g1(p: &G1Affine, c: bool) -> Vec<u8> {
    if c {
        p.into_compressed().as_ref().to_vec()
    } else {
        p.into_uncompressed().as_ref().to_vec()
    }
}
pub fn enc_g2(p: &G2Affine, c: bool) -> Vec<u8> {
    if c {
        p.into_compressed().as_ref().to_vec()
    } else {
        p.into_uncompressed().as_ref().to_vec()
    }
}

#[derive(Clone, Debug)]
pub enum Expect {
    Truncated,
    /// `why` is informational (probe), never part of a verdict
    Invalid(&'static str),
    Ok(Value),
}

fn q_be() -> Vec<u8> {
    unhex(Q_HEX).unwrap()
}
fn r_be() -> Vec<u8> {
    unhex(R_HEX).unwrap()
}

fn gde_name(e: &pairing_plus::GroupDecodingError) -> &'static str {
    use pairing_plus::GroupDecodingError::*;
    match e {
        NotOnCurve => "NotOnCurve",
        NotInSubgroup => "NotInSubgroup",
        CoordinateDecodingError(..) => "CoordinateDecodingError",
        UnexpectedCompressionMode => "UnexpectedCompressionMode",
        UnexpectedInformation => "UnexpectedInformation",
    }
}

/// Expected result of reading a `ty` record with flag `c` from `avail` (all bytes from the
/// reader's position to the end of the stream).
pub fn dec(ty: Ty, avail: &[u8], c: bool) -> Expect {
    match ty {
        Ty::Fr => {
            if avail.len() < 32 {
                return Expect::Truncated;
            }
            if !be_lt(&avail[..32], &r_be()) {
                return Expect::Invalid("fr_not_reduced");
            }
            match fr_from_be(&avail[..32]) {
                Some(f) => Expect::Ok(Value::Fr(f)),
                None => Expect::Invalid("fr_not_reduced"),
            }
        }
        Ty::Fq12 => {
            if avail.len() < 576 {
                return Expect::Truncated;
            }
            let q = q_be();
            for b in avail[..576].chunks(48) {
                if !be_lt(b, &q) {
                    return Expect::Invalid("fq_not_reduced");
                }
            }
            // coefficient order is the library's own (self-reference on a plain slice),
            // validated: the result's coefficients are exactly the twelve blocks
            match Fq12::deserialize(&mut &avail[..576], c) {
                Ok(v) => {
                    let mut want: Vec<Vec<u8>> = avail[..576].chunks(48).map(|x| x.to_vec()).collect();
                    let mut got: Vec<Vec<u8>> = fq12_coeffs(&v).iter().map(|x| fq_be(x).to_vec()).collect();
                    want.sort();
                    got.sort();
                    if want != got {
                        return Expect::Invalid("fq12_plain_slice_decode_inconsistent");
                    }
                    Expect::Ok(Value::Fq12(v))
                }
                Err(_) => Expect::Invalid("fq12_plain_slice_decode_failed"),
            }
        }
        Ty::G1 | Ty::G1A => {
            if avail.len() < 48 {
                return Expect::Truncated;
            }
            if ((avail[0] & 0x80) != 0) != c {
                return Expect::Invalid("flag_mismatch");
            }
            let r = if c {
                let mut e = G1Compressed::empty();
                e.as_mut().copy_from_slice(&avail[..48]);
                e.into_affine()
            } else {
                if avail.len() < 96 {
                    return Expect::Truncated;
                }
                let mut e = G1Uncompressed::empty();
                e.as_mut().copy_from_slice(&avail[..96]);
                e.into_affine()
            };
            match r {
                Ok(p) => Expect::Ok(if ty == Ty::G1 { Value::G1(p.into_projective()) } else { Value::G1A(p) }),
                Err(e) => Expect::Invalid(gde_name(&e)),
            }
        }
        Ty::G2 | Ty::G2A => {
            if avail.len() < 96 {
                return Expect::Truncated;
            }
            if ((avail[0] & 0x80) != 0) != c {
                return Expect::Invalid("flag_mismatch");
            }
            let r = if c {
                let mut e = G2Compressed::empty();
                e.as_mut().copy_from_slice(&avail[..96]);
                e.into_affine()
            } else {
                if avail.len() < 192 {
                    return Expect::Truncated;
                }
                let mut e = G2Uncompressed::empty();
                e.as_mut().copy_from_slice(&avail[..192]);
                e.into_affine()
            };
            match r {
                Ok(p) => Expect::Ok(if ty == Ty::G2 { Value::G2(p.into_projective()) } else { Value::G2A(p) }),
                Err(e) => Expect::Invalid(gde_name(&e)),
            }
        }
    }
}

/// start-up self check of the hard-coded moduli against the library
pub fn check_constants() -> Result<(), String> {
    let r = Fr::char();
    let mut rb = [0u8; 32];
    for i in 0..4 {
        for j in 0..8 {
            rb[i * 8 + j] = (r.0[3 - i] >> (56 - 8 * j)) as u8;
        }
    }
    if hex(&rb) != R_HEX {
        return Err(format!("Fr::char() = {} differs from the harness constant", hex(&rb)));
    }
    let q = Fq::char();
    let mut qb = [0u8; 48];
    for i in 0..6 {
        for j in 0..8 {
            qb[i * 8 + j] = (q.0[5 - i] >> (56 - 8 * j)) as u8;
        }
    }
    if hex(&qb) != Q_HEX {
        return Err(format!("Fq::char() = {} differs from the harness constant", hex(&qb)));
    }
    Ok(())
}
