//! Engine A plan generators: the systematic single-fault sweep (seed independent, complete
//! for its stated space) and the seeded multi-record / multi-fault search.

use crate::io::*;
use crate::model::*;
use crate::util::{hex, unhex, Rng, Q_HEX, R_HEX};
use pairing_plus::bls12_381::{G1Compressed, G2Compressed};
use pairing_plus::{CurveAffine, EncodedPoint, GroupDecodingError};
use std::sync::OnceLock;

pub struct Pools {
    /// point scalars (hex, canonical): index 0 is the identity
    pub pt_scalars: Vec<String>,
    pub fr_vals: Vec<String>,
    pub fq12_vals: Vec<String>,
    /// on-curve, not-in-subgroup encodings: (compressed, uncompressed)
    pub g1_nonsub: Vec<(Vec<u8>, Vec<u8>)>,
    pub g2_nonsub: Vec<(Vec<u8>, Vec<u8>)>,
    /// uncompressed encodings of (u^2 x, u^3 y) for subgroup points (x, y): off the curve (they lie
    /// on y^2 = x^3 + u^6 b) but of order r under the curve-independent Jacobian formulas - the
    /// classic invalid-curve input that only an explicit on-curve check rejects
    pub g1_twist: Vec<Vec<u8>>,
    pub g2_twist: Vec<Vec<u8>>,
}

fn be32(v: u128) -> String {
    let mut b = [0u8; 32];
    b[16..].copy_from_slice(&v.to_be_bytes());
    hex(&b)
}

fn sub_small(h: &str, k: u8) -> String {
    // h - k for big-endian hex h with last byte >= k
    let mut b = unhex(h).unwrap();
    let mut borrow = k as i32;
    for x in b.iter_mut().rev() {
        let v = *x as i32 - borrow;
        if v < 0 {
            *x = (v + 256) as u8;
            borrow = 1;
        } else {
            *x = v as u8;
            borrow = 0;
        }
    }
    hex(&b)
}

/// big-endian block +/- 2^bit (wrapping at the block size)
fn addsub_pow2(block: &[u8], bit: usize, minus: bool) -> Vec<u8> {
    let mut b = block.to_vec();
    let n = b.len();
    let mut i = n - 1 - bit / 8;
    let mut carry = 1i32 << (bit % 8);
    loop {
        let v = if minus { b[i] as i32 - carry } else { b[i] as i32 + carry };
        if (0..256).contains(&v) {
            b[i] = v as u8;
            break;
        }
        b[i] = v.rem_euclid(256) as u8;
        carry = 1;
        if i == 0 {
            break;
        }
        i -= 1;
    }
    b
}

fn pow2(k: usize) -> String {
    let mut b = [0u8; 32];
    b[31 - k / 8] = 1 << (k % 8);
    hex(&b)
}

pub fn pools() -> &'static Pools {
    static P: OnceLock<Pools> = OnceLock::new();
    P.get_or_init(|| {
        let mut rng = Rng::new(0x706f_6f6c);
        let mut pt_scalars = vec![be32(0), be32(1), be32(2), sub_small(R_HEX, 1), be32(3), be32(0xdead_beef), pow2(64), pow2(128), pow2(254)];
        for _ in 0..23 {
            pt_scalars.push(hex(&fr_be(&fr_from_rng(&mut rng))));
        }
        let mut fr_vals = vec![
            be32(0),
            be32(1),
            be32(2),
            sub_small(R_HEX, 1),
            sub_small(R_HEX, 2),
            be32(0xff),
            be32(0x0100),
            pow2(63),
            pow2(64),
            pow2(127),
            pow2(128),
            pow2(191),
            pow2(192),
            pow2(254),
            be32(u64::MAX as u128),
            be32(u128::MAX),
        ];
        for _ in 0..16 {
            fr_vals.push(hex(&fr_be(&fr_from_rng(&mut rng))));
        }
        // just below r in every limb (valid, must be accepted and round-trip)
        let rb = unhex(R_HEX).unwrap();
        for bit in [32usize, 64, 128, 192, 248] {
            fr_vals.push(hex(&addsub_pow2(&rb, bit, true)));
        }
        let mut fq12_vals: Vec<String> = vec!["zero".into(), "one".into(), "qm1".into()];
        for i in 0..12 {
            fq12_vals.push(format!("sparse:{}", i));
        }
        for i in 0..12 {
            fq12_vals.push(format!("seed:{}", i + 1));
        }
        // whole halves / thirds zero: c1 == 0, c0 == 0, one Fq6 coefficient zero, only the Fq2 "real parts"
        for m in [0x03f, 0xfc0, 0xff3, 0x3cf, 0x555, 0xaaa, 0xffe] {
            fq12_vals.push(format!("mask:{}", m));
        }

        // crafted on-curve points outside the subgroup, through public API only:
        // a compressed encoding of a small x decodes unchecked iff x^3+b is a square
        let mut g1_nonsub = vec![];
        let mut x = 0u8;
        while g1_nonsub.len() < 4 {
            for sort in [0u8, 0x20] {
                let mut e = G1Compressed::empty();
                e.as_mut()[47] = x;
                e.as_mut()[0] = 0x80 | sort;
                if let Ok(p) = e.into_affine_unchecked() {
                    if let Err(GroupDecodingError::NotInSubgroup) = e.into_affine() {
                        let c = p.into_compressed().as_ref().to_vec();
                        let u = p.into_uncompressed().as_ref().to_vec();
                        g1_nonsub.push((c, u));
                    }
                }
            }
            x += 1;
        }
        let mut g2_nonsub = vec![];
        let mut x = 0u8;
        while g2_nonsub.len() < 4 {
            for sort in [0u8, 0x20] {
                let mut e = G2Compressed::empty();
                // x = c1 * u + c0 ; encoding is c1 || c0
                e.as_mut()[95] = x;
                e.as_mut()[47] = 1;
                e.as_mut()[0] = 0x80 | sort;
                if let Ok(p) = e.into_affine_unchecked() {
                    if let Err(GroupDecodingError::NotInSubgroup) = e.into_affine() {
                        let c = p.into_compressed().as_ref().to_vec();
                        let u = p.into_uncompressed().as_ref().to_vec();
                        g2_nonsub.push((c, u));
                    }
                }
            }
            x += 1;
        }
        // invalid-curve points, built from public coordinates and the generic field API
        let mut g1_twist = vec![];
        let mut g2_twist = vec![];
        for (u, a) in [(2u64, 1u64), (3, 5), (2, 7)] {
            use ff_zeroize::{Field, PrimeField};
            use pairing_plus::bls12_381::{Fq, Fq2, FqRepr, FrRepr, G1, G2};
            use pairing_plus::CurveProjective;
            let uf = Fq::from_repr(FqRepr::from(u)).unwrap();
            let mut u2 = uf;
            u2.square();
            let mut u3 = u2;
            u3.mul_assign(&uf);
            let mut p1 = G1::one();
            p1.mul_assign(FrRepr::from(a));
            let p1 = p1.into_affine();
            let (x, y) = p1.as_tuple();
            let (mut xx, mut yy) = (*x, *y);
            xx.mul_assign(&u2);
            yy.mul_assign(&u3);
            let mut e = vec![];
            e.extend_from_slice(&fq_be(&xx));
            e.extend_from_slice(&fq_be(&yy));
            g1_twist.push(e);
            let mut p2 = G2::one();
            p2.mul_assign(FrRepr::from(a));
            let p2 = p2.into_affine();
            let (x, y) = p2.as_tuple();
            let s2 = Fq2 { c0: u2, c1: Fq::zero() };
            let s3 = Fq2 { c0: u3, c1: Fq::zero() };
            let (mut xx, mut yy) = (*x, *y);
            xx.mul_assign(&s2);
            yy.mul_assign(&s3);
            // coefficient order of the wire format (c1 before c0) is taken from a genuine encoding
            let genuine = p2.into_uncompressed().as_ref().to_vec();
            let c1_first = genuine[..48] == fq_be(&x.c1)[..];
            let mut e = vec![];
            for f in [&xx, &yy] {
                if c1_first {
                    e.extend_from_slice(&fq_be(&f.c1));
                    e.extend_from_slice(&fq_be(&f.c0));
                } else {
                    e.extend_from_slice(&fq_be(&f.c0));
                    e.extend_from_slice(&fq_be(&f.c1));
                }
            }
            g2_twist.push(e);
        }
        Pools { pt_scalars, fr_vals, fq12_vals, g1_nonsub, g2_nonsub, g1_twist, g2_twist }
    })
}

/// non-reduced big-endian block values of `len` bytes (32: Fr, 48: Fq)
pub fn nonreduced_blocks(len: usize) -> Vec<(&'static str, Vec<u8>)> {
    let m = unhex(if len == 32 { R_HEX } else { Q_HEX }).unwrap();
    let mut v = vec![("modulus", m.clone())];
    let mut p1 = m.clone();
    let n = p1.len();
    p1[n - 1] = p1[n - 1].wrapping_add(1);
    v.push(("modulus_plus_1", p1));
    let mut top = vec![0u8; len];
    if len == 32 {
        top[0] = 0x80; // 2^255
    } else {
        top[0] = 0x1f; // all ones under the three flag bits
        for b in top.iter_mut().skip(1) {
            *b = 0xff;
        }
    }
    v.push(("top_bits", top));
    v.push(("all_ones", vec![0xff; len]));
    // above the modulus by one unit of a middle limb: the top limb (and every limb above the changed one)
    // still equals the modulus's
    v.push(("modulus_plus_2^32", addsub_pow2(&m, 32, false)));
    v.push(("modulus_plus_2^64", addsub_pow2(&m, 64, false)));
    v.push(("modulus_plus_2^128", addsub_pow2(&m, 128, false)));
    // the modulus with one 64-bit limb below the top one set to all ones (a borrow/carry chain that meets
    // an all-ones limb)
    for (name, limb) in [("modulus_limb1_all_ones", 1usize), ("modulus_limb2_all_ones", 2)] {
        let mut x = m.clone();
        let n = x.len();
        for b in x[n - 8 * (limb + 1)..n - 8 * limb].iter_mut() {
            *b = 0xff;
        }
        if x > m {
            v.push((name, x));
        }
    }
    if len == 32 {
        let mut x = vec![0xffu8; 32];
        x[0] = 0x7f; // 2^255 - 1
        v.push(("2^255-1", x));
        v.push(("2^255_plus_1", addsub_pow2(&{ let mut t = vec![0u8; 32]; t[0] = 0x80; t }, 0, false)));
    } else {
        v.push(("modulus_plus_2^320", addsub_pow2(&m, 320, false)));
    }
    v
}

fn val_for(ty: Ty, idx: usize, rng_z: u64) -> VDesc {
    let p = pools();
    match ty {
        Ty::Fr => VDesc::Fr(p.fr_vals[idx % p.fr_vals.len()].clone()),
        Ty::Fq12 => VDesc::Fq12(p.fq12_vals[idx % p.fq12_vals.len()].clone()),
        _ => VDesc::Pt { a: p.pt_scalars[idx % p.pt_scalars.len()].clone(), z: rng_z, neg: idx % 7 == 3, via: 0 },
    }
}

/// deterministic value list of the sweep: index -> descriptor
fn sweep_values(ty: Ty, n: usize) -> Vec<VDesc> {
    // order chosen so that the first three are: identity/zero, generator/one, a random one
    let order: Vec<usize> = match ty {
        Ty::Fr => vec![0, 3, 20, 1, 4, 9, 13, 15, 21, 22, 2, 23],
        Ty::Fq12 => vec![0, 2, 20, 1, 5, 15, 21, 22, 23, 24, 25, 26],
        _ => vec![0, 1, 12, 3, 2, 13, 14, 15, 16, 17, 18, 19],
    };
    let mut v: Vec<VDesc> = order.iter().take(n).map(|&i| val_for(ty, i, if ty == Ty::G1 || ty == Ty::G2 { (i as u64) * 77 } else { 0 })).collect();
    if ty.is_point() && !v.is_empty() {
        // the first point value is the identity as arithmetic produces it (P + (-P): a projective
        // identity with left-over X and Y), not the canonical zero(); the canonical one follows later
        let canonical = v[0].clone();
        v[0] = VDesc::Pt { a: pools().pt_scalars[5].clone(), z: 0, neg: false, via: 1 };
        if v.len() > 3 {
            v[3] = canonical;
        }
    }
    v
}

fn single(ty: Ty, c: bool, v: &VDesc, tag: &str) -> IoPlan {
    IoPlan {
        stratum: format!("sweep:{}", tag),
        records: vec![Rec { ty, c, v: v.clone() }],
        wscript: vec![],
        sfaults: vec![],
        reads: vec![ReadSpec { ty, c }],
        rscript: vec![],
    }
}

/// The systematic sweep. Returns the plans and the per-dimension sizes.
pub fn sweep(values_per_type: usize) -> (Vec<IoPlan>, Vec<(String, usize)>) {
    let mut plans = vec![];
    let mut dims: Vec<(String, usize)> = vec![];
    let mut dim = |name: &str, before: usize, plans: &Vec<IoPlan>| {
        let n = plans.len() - before;
        if let Some(d) = dims.iter_mut().find(|d| d.0 == name) {
            d.1 += n;
        } else {
            dims.push((name.to_string(), n));
        }
    };
    for &ty in ALL_TY.iter() {
        for &c in &[true, false] {
            let len = ty.len(c);
            // Fr and Fq12 ignore the flag: sweep the second flag value with one value only
            let nvals = if !ty.is_point() && !c { 1 } else { values_per_type };
            for (vi, v) in sweep_values(ty, nvals).iter().enumerate() {
                let full_detail = vi < 3; // the per-bit / per-offset dimensions use the first three values
                // (a) truncation at every prefix length, exact, and with trailing bytes
                let b = plans.len();
                for k in 0..len {
                    let mut p = single(ty, c, v, "truncate");
                    p.sfaults.push(SFault::Truncate { at: k, label: "truncate".into() });
                    plans.push(p);
                }
                plans.push(single(ty, c, v, "exact"));
                for k in [1usize, 7, 48, 200] {
                    let mut p = single(ty, c, v, "trailing");
                    p.sfaults.push(SFault::Splice { off: usize::MAX / 2, del: 0, ins: vec![0xa5; k], label: "trailing_garbage".into() });
                    plans.push(p);
                }
                dim("truncate_every_prefix+exact+trailing", b, &plans);

                // (b) persistent read error at every byte offset; one-shot errors of every kind at a few
                let b = plans.len();
                for k in 0..len {
                    let mut p = single(ty, c, v, "read_fail_at");
                    p.rscript = vec![Act::Short(1); k];
                    p.rscript.push(Act::FailForever(KINDS[k % KINDS.len()]));
                    plans.push(p);
                    if full_detail && k % 8 == 3 {
                        let mut p = single(ty, c, v, "read_panic_at");
                        p.rscript = vec![Act::Short(1); k];
                        p.rscript.push(Act::Panic);
                        plans.push(p);
                    }
                }
                for (ki, kind) in KINDS.iter().enumerate() {
                    for k in [0usize, 1, len / 2, len - 1] {
                        let mut p = single(ty, c, v, "read_fail_once");
                        p.rscript = vec![Act::Short(1); k];
                        p.rscript.push(Act::Fail(*kind));
                        let _ = ki;
                        plans.push(p);
                    }
                }
                dim("read_error_every_offset", b, &plans);

                // (c) EINTR before every call index, for whole-buffer and byte-at-a-time delivery
                let b = plans.len();
                if full_detail {
                    for j in 0..=(len / 8 + 2) {
                        let mut p = single(ty, c, v, "read_eintr_full");
                        p.rscript = vec![Act::Full; j];
                        p.rscript.push(Act::Eintr);
                        plans.push(p);
                    }
                    for j in 0..len {
                        let mut p = single(ty, c, v, "read_eintr_bytewise");
                        p.rscript = vec![Act::Short(1); j];
                        p.rscript.push(Act::Eintr);
                        p.rscript.extend(vec![Act::Short(1); len - j]);
                        plans.push(p);
                    }
                }
                dim("read_eintr_every_call", b, &plans);

                // (c2) the caller's reader / writer uses the library itself (nested round trip) before a
                // transfer: at the first call and after a partial transfer
                let b = plans.len();
                for pre in [vec![], vec![Act::Short(1)], vec![Act::Short(7), Act::Short(9)]] {
                    let mut p = single(ty, c, v, "read_reenter");
                    p.rscript = pre.clone();
                    p.rscript.push(Act::Reenter);
                    plans.push(p);
                    let mut p = single(ty, c, v, "write_reenter");
                    p.wscript = pre.clone();
                    p.wscript.push(Act::Reenter);
                    plans.push(p);
                }
                dim("reentrant_stream", b, &plans);

                // (d) every two-chunk split, byte-at-a-time
                let b = plans.len();
                for k in 1..len {
                    let mut p = single(ty, c, v, "read_split");
                    p.rscript = vec![Act::Short(k)];
                    plans.push(p);
                    if full_detail {
                        let mut p = single(ty, c, v, "read_split_bytewise");
                        p.rscript = vec![Act::Short(1); k];
                        plans.push(p);
                    }
                }
                let mut p = single(ty, c, v, "read_bytewise");
                p.rscript = vec![Act::Short(1); len + 2];
                plans.push(p);
                dim("read_every_split", b, &plans);

                // (e) every single-bit flip of the stored record
                let b = plans.len();
                if full_detail {
                    for bit in 0..len * 8 {
                        let mut p = single(ty, c, v, "bitflip");
                        p.sfaults.push(SFault::Flip { bit, label: "bit_flip".into() });
                        plans.push(p);
                    }
                } else {
                    for bit in 0..8 {
                        let mut p = single(ty, c, v, "bitflip");
                        p.sfaults.push(SFault::Flip { bit, label: "bit_flip".into() });
                        plans.push(p);
                    }
                }
                dim("every_single_bit_flip", b, &plans);

                // (f) writer: short write at every offset, zero / every error kind at every offset
                let b = plans.len();
                for k in 1..len {
                    let mut p = single(ty, c, v, "write_short");
                    p.wscript = vec![Act::Short(k)];
                    plans.push(p);
                }
                let mut p = single(ty, c, v, "write_bytewise");
                p.wscript = vec![Act::Short(1); len + 2];
                plans.push(p);
                for k in 0..len {
                    let mut p = single(ty, c, v, "write_zero_at");
                    p.wscript = vec![Act::Short(1); k];
                    p.wscript.push(Act::Zero);
                    plans.push(p);
                    let mut p = single(ty, c, v, "write_fail_at");
                    p.wscript = vec![Act::Short(1); k];
                    p.wscript.push(if k % 2 == 0 { Act::Fail(KINDS[(k / 2) % KINDS.len()]) } else { Act::FailForever(KINDS[(k / 2) % KINDS.len()]) });
                    plans.push(p);
                    if full_detail && k % 8 == 3 {
                        let mut p = single(ty, c, v, "write_panic_at");
                        p.wscript = vec![Act::Short(1); k];
                        p.wscript.push(Act::Panic);
                        plans.push(p);
                    }
                    if full_detail {
                        let mut p = single(ty, c, v, "write_eintr_at");
                        p.wscript = vec![Act::Short(1); k];
                        p.wscript.push(Act::Eintr);
                        plans.push(p);
                    }
                }
                dim("write_fault_every_offset", b, &plans);

                // (g) wrong flag, wire-compatible type, non-reduced blocks, non-subgroup points
                let b = plans.len();
                if ty.is_point() {
                    let mut p = single(ty, c, v, "wrong_flag");
                    p.reads = vec![ReadSpec { ty, c: !c }];
                    plans.push(p);
                    let mut p = single(ty, c, v, "wire_compatible");
                    p.reads = vec![ReadSpec { ty: ty.sibling().unwrap(), c }];
                    plans.push(p);
                }
                let blk = if ty == Ty::Fr { 32 } else { 48 };
                for off in (0..len).step_by(blk) {
                    for (name, bytes) in nonreduced_blocks(blk) {
                        let mut ins = bytes.clone();
                        if ty.is_point() && off == 0 {
                            // keep the caller-visible flag bits consistent so the field check is what decides
                            ins[0] = (ins[0] & 0x1f) | if c { 0x80 } else { 0 };
                        }
                        let mut p = single(ty, c, v, "nonreduced");
                        p.sfaults.push(SFault::Splice { off, del: blk, ins, label: format!("nonreduced_{}", name) });
                        plans.push(p);
                    }
                }
                if ty.is_point() {
                    let pool = if ty.is_g1() { &pools().g1_nonsub } else { &pools().g2_nonsub };
                    for (cb, ub) in pool.iter() {
                        let mut p = single(ty, c, v, "nonsubgroup");
                        p.sfaults.push(SFault::Splice { off: 0, del: len, ins: if c { cb.clone() } else { ub.clone() }, label: "replace_nonsubgroup_point".into() });
                        plans.push(p);
                    }
                }
                if ty.is_point() && !c {
                    let pool = if ty.is_g1() { &pools().g1_twist } else { &pools().g2_twist };
                    for ub in pool.iter() {
                        let mut p = single(ty, c, v, "invalid_curve");
                        p.sfaults.push(SFault::Splice { off: 0, del: len, ins: ub.clone(), label: "replace_invalid_curve_point".into() });
                        plans.push(p);
                    }
                }
                dim("flag/type/nonreduced/nonsubgroup", b, &plans);
            }
        }
    }
    // (h2) projective inputs whose Z has a special shape (G2: u, b·u, real, −1, 1+u, −u; G1: ±1·small):
    // serialize must normalise them like any other Z
    let b = plans.len();
    for &ty in &[Ty::G1, Ty::G2] {
        for &c in &[true, false] {
            for z in 1..=6u64 {
                for idx in [1usize, 12] {
                    let mut v = val_for(ty, idx, z);
                    if let VDesc::Pt { neg, .. } = &mut v {
                        *neg = z % 2 == 0;
                    }
                    plans.push(single(ty, c, &v, "z_shape"));
                }
            }
        }
    }
    dim("projective_z_shapes", b, &plans);
    // (i) history variants: the same single-fault cases, but after a successful round trip of the
    // intact record on the same stream (and, for writer faults, followed by a second record that
    // must be written correctly after the first write failed). A stateless implementation cannot
    // tell the difference; one that keeps per-thread or global state between calls can.
    let b = plans.len();
    let base: Vec<IoPlan> = plans.iter().filter(|p| p.records.len() == 1 && p.reads.len() == 1).cloned().collect();
    for p in base {
        let r0 = p.records[0].clone();
        let len = r0.ty.len(r0.c);
        if !p.sfaults.is_empty() && p.wscript.is_empty() && p.rscript.is_empty() {
            // [R, R'] written intact; the faults hit the second copy; both are read
            let keep = match &p.sfaults[0] {
                SFault::Flip { bit, .. } => bit % 3 == 0 || *bit < 16, // every third bit: keeps the sweep affordable
                _ => true,
            };
            if !keep {
                continue;
            }
            let mut q = p.clone();
            q.stratum = format!("{}+after_valid", p.stratum);
            q.records = vec![r0.clone(), r0.clone()];
            q.reads = vec![p.reads[0].clone(), p.reads[0].clone()];
            q.sfaults = p
                .sfaults
                .iter()
                .map(|f| match f {
                    SFault::Truncate { at, label } => SFault::Truncate { at: at + len, label: label.clone() },
                    SFault::Flip { bit, label } => SFault::Flip { bit: bit + 8 * len, label: label.clone() },
                    SFault::Splice { off, del, ins, label } => SFault::Splice { off: if *off > usize::MAX / 4 { *off } else { off + len }, del: *del, ins: ins.clone(), label: label.clone() },
                })
                .collect();
            // the first read must see the record the caller's flag announces
            q.reads[0] = ReadSpec { ty: r0.ty, c: r0.c };
            plans.push(q);
        } else if !p.rscript.is_empty() && p.sfaults.is_empty() && p.wscript.is_empty() && (p.stratum.contains("read_fail_once") || p.stratum.contains("read_eintr_full")) {
            // a transient read error inside R, with a second record behind it: whatever the library does
            // about the error (give up, or retry), it must not hand out bytes of the next record as R
            let mut q = p.clone();
            q.stratum = format!("{}+then_second_record", p.stratum);
            let v2 = sweep_values(r0.ty, 3)[2].clone();
            let v1 = sweep_values(r0.ty, 3)[1].clone();
            q.records = vec![Rec { ty: r0.ty, c: r0.c, v: v1 }, Rec { ty: r0.ty, c: r0.c, v: v2 }];
            q.reads = vec![p.reads[0].clone(), p.reads[0].clone()];
            plans.push(q);
        } else if !p.wscript.is_empty() && p.sfaults.is_empty() && p.rscript.is_empty() && !matches!(p.wscript.last(), Some(Act::FailForever(_))) && p.wscript.len() % 4 == 1 {
            // a failed (or short) write of R, then a second record of the same type on the same stream
            let mut q = p.clone();
            q.stratum = format!("{}+then_second_record", p.stratum);
            let v2 = sweep_values(r0.ty, 3)[2].clone();
            q.records = vec![r0.clone(), Rec { ty: r0.ty, c: r0.c, v: v2 }];
            q.reads = vec![];
            plans.push(q);
        }
    }
    dim("single_fault_after_valid_history", b, &plans);

    // (h) every ordered pair of record kinds back to back: exact consumption in context
    let b = plans.len();
    for &t1 in ALL_TY.iter() {
        for &c1 in &[true, false] {
            for &t2 in ALL_TY.iter() {
                for &c2 in &[true, false] {
                    let v1 = sweep_values(t1, 3)[2].clone();
                    let v2 = sweep_values(t2, 3)[2].clone();
                    plans.push(IoPlan {
                        stratum: "sweep:pairs".into(),
                        records: vec![Rec { ty: t1, c: c1, v: v1 }, Rec { ty: t2, c: c2, v: v2 }],
                        wscript: vec![],
                        sfaults: vec![],
                        reads: vec![ReadSpec { ty: t1, c: c1 }, ReadSpec { ty: t2, c: c2 }],
                        rscript: vec![],
                    });
                }
            }
        }
    }
    dim("record_pairs_back_to_back", b, &plans);
    (plans, dims)
}

// ---------------------------------------------------------------- seeded search

fn gen_script(rng: &mut Rng, reader: bool, expected_calls: usize, nfaults: usize, enabled: &[bool; 5]) -> Vec<Act> {
    // enabled: [short, zero, eintr, fail_once, fail_forever]
    let len = rng.range(1, expected_calls.max(2) + 4);
    let mut s = vec![Act::Full; len];
    // background shortness
    if enabled[0] && rng.chance(1, 3) {
        let short_rate = rng.range(1, 8) as u64;
        for a in s.iter_mut() {
            if rng.chance(short_rate, 10) {
                *a = Act::Short(match rng.below(4) {
                    0 => 1,
                    1 => rng.range(1, 8),
                    2 => rng.range(1, 47),
                    _ => rng.range(1, 200),
                });
            }
        }
    }
    for _ in 0..nfaults {
        let at = rng.below(s.len());
        let k = *rng.pick(&KINDS);
        let choice = if rng.chance(1, 12) { 5 } else { rng.below(5) };
        let act = match choice {
            5 => if rng.chance(1, 3) { Act::Panic } else { Act::Reenter },
            0 if enabled[0] => Act::Short(rng.range(1, 100)),
            1 if enabled[1] && !reader => Act::Zero,
            2 if enabled[2] => Act::Eintr,
            3 if enabled[3] => Act::Fail(k),
            4 if enabled[4] => Act::FailForever(k),
            _ => continue,
        };
        s[at] = act;
    }
    while s.last() == Some(&Act::Full) {
        s.pop();
    }
    s
}

/// One seeded multi-record, multi-fault plan (swarm style: strata, enabled fault kinds,
/// rates and sizes vary per run).
pub fn gen_plan(seed: u64) -> IoPlan {
    let mut rng = Rng::new(seed);
    let p = pools();
    let stratum = match rng.below(20) {
        0..=1 => "fault_free",
        2..=5 => "writer_only",
        6..=10 => "reader_only",
        11..=15 => "storage_only",
        _ => "mixed",
    };
    let nrec = match rng.below(10) {
        0..=3 => 1,
        4..=6 => 2,
        7..=8 => rng.range(3, 4),
        _ => rng.range(5, 6),
    };
    // per-run type mix (swarm): a random non-empty subset of types
    let mut tys: Vec<Ty> = ALL_TY.iter().copied().filter(|_| rng.chance(1, 2)).collect();
    if tys.is_empty() {
        tys.push(*rng.pick(&ALL_TY));
    }
    let mut records = vec![];
    for _ in 0..nrec {
        let ty = *rng.pick(&tys);
        let c = rng.chance(1, 2);
        let v = match ty {
            Ty::Fr => VDesc::Fr(rng.pick(&p.fr_vals).clone()),
            Ty::Fq12 => VDesc::Fq12(if rng.chance(1, 3) { format!("seed:{}", rng.next() % 100_000) } else { rng.pick(&p.fq12_vals).clone() }),
            _ => VDesc::Pt {
                a: rng.pick(&p.pt_scalars).clone(),
                z: if (ty == Ty::G1 || ty == Ty::G2) && rng.chance(2, 3) { if rng.chance(1, 4) { 1 + rng.next() % 6 } else { 7 + rng.next() % 1000 } } else { 0 },
                neg: rng.chance(1, 4),
                via: if rng.chance(1, 12) { 1 + (rng.next() % 2) as u8 } else { 0 },
            },
        };
        records.push(Rec { ty, c, v });
    }
    let total: usize = records.iter().map(|r| r.ty.len(r.c)).sum();
    let mut offs = vec![];
    let mut o = 0;
    for r in &records {
        offs.push(o);
        o += r.ty.len(r.c);
    }

    let mut en = [false; 5];
    for e in en.iter_mut() {
        *e = rng.chance(3, 5);
    }
    if !en.iter().any(|x| *x) {
        en[rng.below(5)] = true;
    }
    let expected_wcalls: usize = records.iter().map(|r| if r.ty == Ty::Fr { 4 } else { 1 }).sum();
    let expected_rcalls: usize = records
        .iter()
        .map(|r| match r.ty {
            Ty::Fr => 4,
            Ty::Fq12 => 72,
            _ => 2,
        })
        .sum();

    let wfaults = matches!(stratum, "writer_only" | "mixed");
    let rfaults = matches!(stratum, "reader_only" | "mixed");
    let sfaults_on = matches!(stratum, "storage_only" | "mixed");
    let nwf = rng.range(0, 3);
    let nrf = rng.range(0, 3);
    let wscript = if wfaults { gen_script(&mut rng, false, expected_wcalls, nwf, &en) } else { vec![] };
    let rscript = if rfaults { gen_script(&mut rng, true, expected_rcalls, nrf, &en) } else { vec![] };

    let mut sfaults = vec![];
    if sfaults_on {
        let n = match rng.below(10) {
            0..=5 => 1,
            6..=8 => 2,
            _ => 3,
        };
        for _ in 0..n {
            let ri = rng.below(records.len());
            let r = &records[ri];
            let len = r.ty.len(r.c);
            let off = offs[ri];
            let f = match rng.below(12) {
                0 => SFault::Truncate { at: rng.below(total + 1), label: "truncate".into() },
                1 => SFault::Truncate { at: off + rng.below(len), label: "truncate_in_record".into() },
                2 | 3 => SFault::Flip { bit: (off + rng.below(len)) * 8 + rng.below(8), label: "bit_flip".into() },
                4 => SFault::Flip { bit: off * 8 + rng.below(3), label: "flag_bit_toggle".into() },
                5 => SFault::Splice { off: off + rng.below(len), del: 1, ins: vec![rng.next() as u8], label: "byte_overwrite".into() },
                6 => {
                    let l = rng.range(1, 64);
                    SFault::Splice { off: off + rng.below(len), del: l, ins: vec![0; l], label: "zero_range".into() }
                }
                7 => {
                    let blk = if r.ty == Ty::Fr { 32 } else { 48 };
                    let nb = len / blk;
                    let b = rng.below(nb);
                    let choices = nonreduced_blocks(blk);
                    let (name, bytes) = rng.pick(&choices).clone();
                    let mut ins = bytes;
                    if r.ty.is_point() && b == 0 {
                        ins[0] = (ins[0] & 0x1f) | if r.c { 0x80 } else { 0 };
                    }
                    SFault::Splice { off: off + b * blk, del: blk, ins, label: format!("nonreduced_{}", name) }
                }
                8 if r.ty.is_point() && !r.c && rng.chance(1, 2) => {
                    let pool = if r.ty.is_g1() { &p.g1_twist } else { &p.g2_twist };
                    SFault::Splice { off, del: len, ins: rng.pick(pool).clone(), label: "replace_invalid_curve_point".into() }
                }
                8 if r.ty.is_point() => {
                    let pool = if r.ty.is_g1() { &p.g1_nonsub } else { &p.g2_nonsub };
                    let (cb, ub) = rng.pick(pool).clone();
                    SFault::Splice { off, del: len, ins: if r.c { cb } else { ub }, label: "replace_nonsubgroup_point".into() }
                }
                9 => {
                    // duplicate a record in place (insert a copy right after it): the bytes are
                    // only known after writing, so insert a copy of the expected encoding
                    let ins = r.v.materialize(r.ty).ok().and_then(|v| enc(&v, r.c).ok()).unwrap_or_default();
                    SFault::Splice { off: off + len, del: 0, ins, label: "duplicate_record".into() }
                }
                10 => {
                    let l = rng.range(1, 120);
                    let mut g = vec![0u8; l];
                    for b in g.iter_mut() {
                        *b = rng.next() as u8;
                    }
                    SFault::Splice { off: usize::MAX / 2, del: 0, ins: g, label: "trailing_garbage".into() }
                }
                _ => {
                    // drop a range (lost sector): everything after shifts
                    SFault::Splice { off: off + rng.below(len), del: rng.range(1, 48), ins: vec![], label: "lost_range".into() }
                }
            };
            sfaults.push(f);
        }
    }

    // read plan: mostly mirrors the records
    let mut reads = vec![];
    for r in &records {
        let mut ty = r.ty;
        let mut c = r.c;
        if stratum != "fault_free" {
            match rng.below(16) {
                0 => c = !c,
                1 => {
                    if let Some(s) = ty.sibling() {
                        ty = s
                    }
                }
                2 => ty = *rng.pick(&ALL_TY),
                _ => {}
            }
        } else if rng.chance(1, 8) {
            if let Some(s) = ty.sibling() {
                ty = s
            }
        }
        reads.push(ReadSpec { ty, c });
    }
    if rng.chance(1, 6) {
        // one more read than records: EOF or leftover data
        reads.push(ReadSpec { ty: *rng.pick(&ALL_TY), c: rng.chance(1, 2) });
    }
    IoPlan { stratum: stratum.to_string(), records, wscript, sfaults, reads, rscript }
}
