//! Token-passing scheduler over real OS threads (DESIGN §3.2.1): exactly one simulated
//! thread runs at a time; the seeded schedule decides who. Yield points exist at operation
//! boundaries, at every place where the library calls back into caller-supplied code
//! (Read / Write / RngCore / Into<Repr> / Iterator / Digest seams) and — in the
//! function-entry-instrumented build (Engine B', see mc.rs) — at every entry of a
//! synchronisation function instantiated in the library crate.
//!
//! A thread that holds the token but is asleep in the kernel (blocked on a lock whose owner
//! is parked) is detected through /proc and *revoked*: the scheduler carries on with the
//! others; the revoked thread re-joins at its next yield point. If every unfinished thread
//! is blocked, that is a deadlock.

use std::cell::RefCell;
use std::sync::atomic::{AtomicBool, AtomicI64, AtomicU32, AtomicU64, Ordering};
use std::sync::{Arc, Condvar, Mutex};
use std::time::{Duration, Instant};

#[derive(Clone, Copy, PartialEq, Eq, Debug)]
enum Turn {
    Scheduler,
    Thread(usize),
}

struct St {
    turn: Turn,
    finished: Vec<bool>,
    /// label of the point at which each thread last yielded
    at: Vec<&'static str>,
}

pub struct Sim {
    m: Mutex<St>,
    sched_cv: Condvar,
    thr_cv: Vec<Condvar>,
    /// bit mask of seam kinds at which threads yield inside calls
    pub yield_mask: u32,
    /// set by the scheduler when it gives up on a sleeping token holder
    pub revoked: Vec<AtomicBool>,
    pub tids: Vec<AtomicI64>,
    /// synchronisation points the thread may pass before it yields (set at each grant)
    pub quantum: Vec<AtomicU32>,
    pub sync_points: AtomicU64,
    pub revocations: AtomicU64,
    /// number of currently revoked threads (fast-path check in the function-entry hook)
    pub outstanding: std::sync::atomic::AtomicUsize,
    /// operations completed by each simulated thread (for call-backs that wait on another thread)
    pub ops_done: Vec<std::sync::atomic::AtomicUsize>,
    /// threads nobody may wait for: finished, killed, or held back by a stall fault
    pub no_wait: Vec<AtomicBool>,
    pub dependent_waits: AtomicU64,
    pub forced_preemptions: AtomicU64,
}

pub const Y_OP: u32 = 1; // between the library calls of a compound operation
pub const Y_READ: u32 = 2;
pub const Y_WRITE: u32 = 4;
pub const Y_RNG: u32 = 8;
pub const Y_INTO: u32 = 16;
pub const Y_ITER: u32 = 32;
pub const Y_HASH: u32 = 64;
pub const Y_SYNC: u32 = 128; // entries of synchronisation functions (instrumented build only)
pub const Y_ALL: u32 = 255;

#[derive(Debug, PartialEq, Eq)]
pub enum Grant {
    Returned,
    /// the thread is asleep in the kernel while holding the token: revoked
    Blocked,
    /// the token did not come back and the thread is not asleep: stuck inside a call
    Stalled(&'static str),
}

thread_local! {
    static CUR: RefCell<Option<(Arc<Sim>, usize)>> = const { RefCell::new(None) };
    static YIELDS: RefCell<u64> = const { RefCell::new(0) };
}

extern "C" {
    fn syscall(num: i64, ...) -> i64;
}
fn gettid() -> i64 {
    unsafe { syscall(186) }
}

/// is this OS thread asleep in a futex wait (i.e. waiting for a lock or condition variable)?
fn asleep_on_futex(tid: i64) -> Option<bool> {
    let (s, _) = thread_state(tid)?;
    if s != 'S' {
        return Some(false);
    }
    let w = std::fs::read_to_string(format!("/proc/self/task/{}/wchan", tid)).ok()?;
    Some(w.trim_start().starts_with("futex"))
}

/// (state, cpu ticks) of an OS thread of this process
fn thread_state(tid: i64) -> Option<(char, u64)> {
    let s = std::fs::read_to_string(format!("/proc/self/task/{}/stat", tid)).ok()?;
    let r = s.rfind(')')?;
    let rest: Vec<&str> = s[r + 1..].split_whitespace().collect();
    let state = rest.first()?.chars().next()?;
    let ut: u64 = rest.get(11)?.parse().ok()?;
    let st: u64 = rest.get(12)?.parse().ok()?;
    Some((state, ut + st))
}

impl Sim {
    pub fn new(n: usize, yield_mask: u32) -> Arc<Sim> {
        Arc::new(Sim {
            m: Mutex::new(St { turn: Turn::Scheduler, finished: vec![false; n], at: vec!["start"; n] }),
            sched_cv: Condvar::new(),
            thr_cv: (0..n).map(|_| Condvar::new()).collect(),
            yield_mask,
            revoked: (0..n).map(|_| AtomicBool::new(false)).collect(),
            tids: (0..n).map(|_| AtomicI64::new(0)).collect(),
            quantum: (0..n).map(|_| AtomicU32::new(1)).collect(),
            sync_points: AtomicU64::new(0),
            revocations: AtomicU64::new(0),
            outstanding: std::sync::atomic::AtomicUsize::new(0),
            ops_done: (0..n).map(|_| std::sync::atomic::AtomicUsize::new(0)).collect(),
            no_wait: (0..n).map(|_| AtomicBool::new(false)).collect(),
            dependent_waits: AtomicU64::new(0),
            forced_preemptions: AtomicU64::new(0),
        })
    }

    /// thread side: block until the scheduler names this thread
    pub fn wait_turn(&self, me: usize) {
        let mut g = self.m.lock().unwrap_or_else(|e| e.into_inner());
        loop {
            if self.revoked[me].swap(false, Ordering::SeqCst) {
                // we were taken for blocked although we are merely waiting for our turn (slow thread
                // start or slow wake-up on a loaded machine): re-join, the scheduler will name us again
                self.outstanding.fetch_sub(1, Ordering::SeqCst);
                if g.turn == Turn::Thread(me) {
                    g.turn = Turn::Scheduler;
                }
                self.sched_cv.notify_one();
            }
            if g.turn == Turn::Thread(me) {
                return;
            }
            let (ng, _) = self.thr_cv[me].wait_timeout(g, Duration::from_millis(4)).unwrap_or_else(|e| e.into_inner());
            g = ng;
        }
    }

    /// thread side: hand the token back (or, if it was revoked meanwhile, just re-join)
    pub fn give_back(&self, me: usize, finished: bool, at: &'static str) {
        let mut g = self.m.lock().unwrap_or_else(|e| e.into_inner());
        if finished {
            g.finished[me] = true;
        }
        g.at[me] = at;
        if self.revoked[me].swap(false, Ordering::SeqCst) {
            // the token is no longer ours: do not touch the turn, only tell the scheduler we are back
            self.outstanding.fetch_sub(1, Ordering::SeqCst);
            self.sched_cv.notify_one();
            return;
        }
        if g.turn == Turn::Thread(me) {
            g.turn = Turn::Scheduler;
        }
        self.sched_cv.notify_one();
    }

    /// scheduler side: let thread `i` run until its next yield point
    pub fn grant(&self, i: usize, quantum: u32, timeout: Duration) -> Grant {
        let mut g = self.m.lock().unwrap_or_else(|e| e.into_inner());
        self.quantum[i].store(quantum.max(1), Ordering::Relaxed);
        g.turn = Turn::Thread(i);
        self.thr_cv[i].notify_one();
        let start = Instant::now();
        let mut asleep_samples = 0;
        let mut waits = 0u32;
        while g.turn != Turn::Scheduler {
            // short waits first (operations usually return within microseconds), then 1 ms sampling
            let slice = if waits < 20 { Duration::from_micros(200) } else { Duration::from_millis(1) };
            waits += 1;
            let (ng, to) = self.sched_cv.wait_timeout(g, slice).unwrap_or_else(|e| e.into_inner());
            g = ng;
            if g.turn == Turn::Scheduler {
                break;
            }
            if to.timed_out() && waits >= 20 {
                let tid = self.tids[i].load(Ordering::Relaxed);
                match if tid > 0 { asleep_on_futex(tid) } else { None } {
                    Some(true) => asleep_samples += 1,
                    _ => asleep_samples = 0,
                }
                if asleep_samples >= 10 {
                    // continuously asleep in a futex wait for >= 10 ms while holding the token: it waits for
                    // a lock whose owner is parked. Revoke; it re-joins at its next function entry.
                    self.revoked[i].store(true, Ordering::SeqCst);
                    self.outstanding.fetch_add(1, Ordering::SeqCst);
                    self.revocations.fetch_add(1, Ordering::Relaxed);
                    g.turn = Turn::Scheduler;
                    return Grant::Blocked;
                }
                if start.elapsed() >= timeout {
                    return Grant::Stalled(g.at[i]);
                }
            }
        }
        Grant::Returned
    }

    /// scheduler side, before every decision: decide deterministically whether a revoked thread is
    /// still blocked (asleep in the kernel) or has been woken by an unlock; in the latter case wait
    /// until it has re-joined at its next function entry. Returns true if the thread is back.
    pub fn settle_revoked(&self, i: usize) -> bool {
        let tid = self.tids[i].load(Ordering::Relaxed);
        let start = Instant::now();
        loop {
            if !self.is_revoked(i) {
                return true;
            }
            match asleep_on_futex(tid) {
                // asleep: never woken, or woken and already asleep again on a lock that is still held
                Some(true) => return false,
                Some(false) => {}
                None => return !self.is_revoked(i),
            }
            // runnable: an unlock has woken it; let it run to its next function entry
            // (yield, do not sleep: the caller may be the token holder, whose own state is sampled)
            if start.elapsed() > Duration::from_secs(5) {
                return false;
            }
            std::thread::yield_now();
        }
    }

    /// token holder side (function-entry hook, only while some thread is revoked): if one of our own
    /// unlocks has just woken a revoked thread, stand still until it has taken the lock and re-joined
    /// (or has gone back to sleep), so that lock hand-over never races with the token holder
    pub fn holder_settle(&self, me: usize) {
        for i in 0..self.revoked.len() {
            if i != me && self.is_revoked(i) {
                self.settle_revoked(i);
            }
        }
    }

    /// scheduler side: wait a little for any revoked thread to re-join or finish
    pub fn wait_for_rejoin(&self, d: Duration) {
        let g = self.m.lock().unwrap_or_else(|e| e.into_inner());
        let _ = self.sched_cv.wait_timeout(g, d);
    }

    /// diagnostic: kernel view of a simulated thread
    pub fn describe(&self, i: usize) -> String {
        let tid = self.tids[i].load(Ordering::Relaxed);
        let st = thread_state(tid).map(|s| s.0).unwrap_or('?');
        let wchan = std::fs::read_to_string(format!("/proc/self/task/{}/wchan", tid)).unwrap_or_default();
        let at = self.m.lock().unwrap_or_else(|e| e.into_inner()).at[i];
        format!("state {} wchan {} last yield point '{}' revoked {}", st, wchan.trim(), at, self.is_revoked(i))
    }

    pub fn is_finished(&self, i: usize) -> bool {
        self.m.lock().unwrap_or_else(|e| e.into_inner()).finished[i]
    }
    pub fn is_revoked(&self, i: usize) -> bool {
        self.revoked[i].load(Ordering::SeqCst)
    }
}

/// register the calling OS thread as simulated thread `me`
pub fn enter(sim: &Arc<Sim>, me: usize) {
    sim.tids[me].store(gettid(), Ordering::Relaxed);
    CUR.with(|c| *c.borrow_mut() = Some((sim.clone(), me)));
    YIELDS.with(|y| *y.borrow_mut() = 0);
    crate::mc::activate(Arc::as_ptr(sim), me);
}
pub fn leave() -> u64 {
    crate::mc::deactivate();
    CUR.with(|c| *c.borrow_mut() = None);
    YIELDS.with(|y| *y.borrow())
}

/// A yield point of kind `kind`: if the calling thread is a simulated thread and the run
/// enables this seam, hand the token to the scheduler and wait to be named again.
/// No-op outside a simulation (reference evaluations, Miri runs).
pub fn yield_here(kind: u32, at: &'static str) {
    crate::mc::with_hook_disabled(|| {
        let cur = CUR.with(|c| c.borrow().clone());
        if let Some((sim, me)) = cur {
            if sim.yield_mask & kind != 0 {
                YIELDS.with(|y| *y.borrow_mut() += 1);
                sim.give_back(me, false, at);
                sim.wait_turn(me);
            }
        }
    })
}

/// called from the function-entry hook when a revoked thread wakes up: park until named
pub fn rejoin(sim: &Sim, me: usize) {
    sim.give_back(me, false, "re-joined after being blocked");
    sim.wait_turn(me);
}

/// called from the function-entry hook at the entry of a synchronisation function
pub fn sync_point(sim: &Sim, me: usize) {
    sim.sync_points.fetch_add(1, Ordering::Relaxed);
    if sim.yield_mask & Y_SYNC == 0 {
        return;
    }
    let q = sim.quantum[me].load(Ordering::Relaxed);
    if q > 1 {
        sim.quantum[me].store(q - 1, Ordering::Relaxed);
        return;
    }
    YIELDS.with(|y| *y.borrow_mut() += 1);
    sim.give_back(me, false, "synchronisation function entry");
    sim.wait_turn(me);
}

/// A caller-supplied stream whose data depends on another caller thread: called from inside a
/// `Read::read` call-back, it does not return until the simulated thread with the next lower
/// index has completed one more library operation (or can no longer be waited for). A library
/// that holds a lock across the call-back while that other thread needs the lock never
/// terminates here; the scheduler reports that through its livelock / deadlock path.
/// Dependencies only point to lower indices, so the harness itself cannot create a cycle.
pub fn wait_for_lower_thread(at: &'static str) {
    crate::mc::with_hook_disabled(|| wait_for_lower_thread_inner(at))
}
fn wait_for_lower_thread_inner(at: &'static str) {
    let cur = CUR.with(|c| c.borrow().clone());
    if let Some((sim, me)) = cur {
        if me == 0 || sim.yield_mask & Y_READ == 0 {
            return;
        }
        let other = me - 1;
        let seen = sim.ops_done[other].load(Ordering::SeqCst);
        let mut counted = false;
        loop {
            if sim.no_wait[other].load(Ordering::SeqCst) || sim.ops_done[other].load(Ordering::SeqCst) > seen {
                return;
            }
            if !counted {
                sim.dependent_waits.fetch_add(1, Ordering::Relaxed);
                counted = true;
            }
            YIELDS.with(|y| *y.borrow_mut() += 1);
            sim.give_back(me, false, at);
            sim.wait_turn(me);
        }
    }
}

/// called from the function-entry hook when the thread's entry counter reaches a preemption point of
/// the plan: an unconditional yield in the middle of whatever the thread is doing (instrumented build)
pub fn forced_yield(sim: &Sim, me: usize) {
    sim.forced_preemptions.fetch_add(1, Ordering::Relaxed);
    YIELDS.with(|y| *y.borrow_mut() += 1);
    sim.give_back(me, false, "function entry chosen by the plan");
    sim.wait_turn(me);
}
