//! Token-passing scheduler over real OS threads (DESIGN §3.2.1): exactly one simulated
//! thread runs at a time; the seeded schedule decides who. Yield points exist at operation
//! boundaries and at every place where the library calls back into caller-supplied code
//! (Read / Write / RngCore / Into<Repr> / Iterator / Digest seams).

use std::cell::RefCell;
use std::sync::{Arc, Condvar, Mutex};
use std::time::Duration;

#[derive(Clone, Copy, PartialEq, Eq, Debug)]
enum Turn {
    Scheduler,
    Thread(usize),
}

struct St {
    turn: Turn,
    finished: Vec<bool>,
    /// label of the point at which each thread last yielded
    at: Vec<&'static str>,
}

pub struct Sim {
    m: Mutex<St>,
    sched_cv: Condvar,
    thr_cv: Vec<Condvar>,
    /// bit mask of seam kinds at which threads yield inside calls
    pub yield_mask: u32,
}

pub const Y_OP: u32 = 1; // between the library calls of a compound operation
pub const Y_READ: u32 = 2;
pub const Y_WRITE: u32 = 4;
pub const Y_RNG: u32 = 8;
pub const Y_INTO: u32 = 16;
pub const Y_ITER: u32 = 32;
pub const Y_HASH: u32 = 64;
pub const Y_ALL: u32 = 127;

thread_local! {
    static CUR: RefCell<Option<(Arc<Sim>, usize)>> = const { RefCell::new(None) };
    static YIELDS: RefCell<u64> = const { RefCell::new(0) };
}

impl Sim {
    pub fn new(n: usize, yield_mask: u32) -> Arc<Sim> {
        Arc::new(Sim {
            m: Mutex::new(St { turn: Turn::Scheduler, finished: vec![false; n], at: vec!["start"; n] }),
            sched_cv: Condvar::new(),
            thr_cv: (0..n).map(|_| Condvar::new()).collect(),
            yield_mask,
        })
    }

    /// thread side: block until the scheduler names this thread
    pub fn wait_turn(&self, me: usize) {
        let mut g = self.m.lock().unwrap_or_else(|e| e.into_inner());
        while g.turn != Turn::Thread(me) {
            g = self.thr_cv[me].wait(g).unwrap_or_else(|e| e.into_inner());
        }
    }

    /// thread side: hand the token back
    pub fn give_back(&self, me: usize, finished: bool, at: &'static str) {
        let mut g = self.m.lock().unwrap_or_else(|e| e.into_inner());
        if finished {
            g.finished[me] = true;
        }
        g.at[me] = at;
        g.turn = Turn::Scheduler;
        self.sched_cv.notify_one();
    }

    /// scheduler side: let thread `i` run until its next yield point. Err = the token did
    /// not come back within `timeout` (the thread is stuck inside a library call).
    pub fn grant(&self, i: usize, timeout: Duration) -> Result<(), &'static str> {
        let mut g = self.m.lock().unwrap_or_else(|e| e.into_inner());
        g.turn = Turn::Thread(i);
        self.thr_cv[i].notify_one();
        let deadline = std::time::Instant::now() + timeout;
        while g.turn != Turn::Scheduler {
            let now = std::time::Instant::now();
            if now >= deadline {
                return Err(g.at[i]);
            }
            let (ng, _) = self.sched_cv.wait_timeout(g, deadline - now).unwrap_or_else(|e| e.into_inner());
            g = ng;
        }
        Ok(())
    }

    pub fn is_finished(&self, i: usize) -> bool {
        self.m.lock().unwrap_or_else(|e| e.into_inner()).finished[i]
    }
    pub fn last_at(&self, i: usize) -> &'static str {
        self.m.lock().unwrap_or_else(|e| e.into_inner()).at[i]
    }
}

/// register the calling OS thread as simulated thread `me`
pub fn enter(sim: &Arc<Sim>, me: usize) {
    CUR.with(|c| *c.borrow_mut() = Some((sim.clone(), me)));
    YIELDS.with(|y| *y.borrow_mut() = 0);
}
pub fn leave() -> u64 {
    CUR.with(|c| *c.borrow_mut() = None);
    YIELDS.with(|y| *y.borrow())
}

/// A yield point of kind `kind`: if the calling thread is a simulated thread and the run
/// enables this seam, hand the token to the scheduler and wait to be named again.
/// No-op outside a simulation (reference evaluations, Miri runs).
pub fn yield_here(kind: u32, at: &'static str) {
    let cur = CUR.with(|c| c.borrow().clone());
    if let Some((sim, me)) = cur {
        if sim.yield_mask & kind != 0 {
            YIELDS.with(|y| *y.borrow_mut() += 1);
            sim.give_back(me, false, at);
            sim.wait_turn(me);
        }
    }
}
