//! pp-sim — deterministic simulation harness for algorand/pairing-plus (see /verif/DESIGN.md).
//!
//! Exit codes: 0 = nothing found, 1 = violation found (details in the result file),
//! 2 = harness error (never a property verdict).

mod io;
mod io_gen;
mod io_run;
mod json;
mod mc;
mod miri_run;
mod model;
mod ops;
mod refmul;
mod sched;
mod sched_run;
mod spool;
mod tok;
mod util;

use json::J;
use std::collections::HashMap;
use std::time::{Duration, Instant};

fn args_map(args: &[String]) -> HashMap<String, String> {
    let mut m = HashMap::new();
    let mut i = 0;
    while i < args.len() {
        if let Some(k) = args[i].strip_prefix("--") {
            if i + 1 < args.len() && !args[i + 1].starts_with("--") {
                m.insert(k.to_string(), args[i + 1].clone());
                i += 2;
            } else {
                m.insert(k.to_string(), "1".to_string());
                i += 1;
            }
        } else {
            m.insert(format!("_{}", m.len()), args[i].clone());
            i += 1;
        }
    }
    m
}

pub fn geti(m: &HashMap<String, String>, k: &str, d: u64) -> u64 {
    m.get(k).and_then(|v| v.parse().ok()).unwrap_or(d)
}

pub fn quiet_panics() {
    if std::env::var_os("PP_SIM_LOUD").is_none() {
        std::panic::set_hook(Box::new(|_| {}));
    }
}

pub fn harness_error(msg: &str) -> ! {
    eprintln!("HARNESS-ERROR: {}", msg);
    std::process::exit(2)
}

fn cmd_io(m: &HashMap<String, String>) -> i32 {
    if let Err(e) = model::check_constants() {
        harness_error(&e);
    }
    quiet_panics();
    let seed = geti(m, "seed", 1);
    let workers = geti(m, "workers", 16) as usize;
    let runs = geti(m, "runs", 50_000) as usize;
    let secs = geti(m, "secs", 0);
    let sweep_values = geti(m, "sweep-values", 3) as usize;
    let do_sweep = !m.contains_key("no-sweep");
    let digest_only = m.contains_key("digest-only");
    let out = m.get("out").cloned().unwrap_or_else(|| "/dev/stdout".to_string());
    let replay_dir = m.get("replay-dir").cloned().unwrap_or_else(|| "/verif/replays".to_string());
    let property = m.get("property").cloned().unwrap_or_else(|| "C19".to_string());
    let known: Vec<String> = m.get("known").map(|k| k.split(';').filter(|x| !x.is_empty()).map(|x| x.to_string()).collect()).unwrap_or_default();
    let t0 = Instant::now();
    // --shard s --of n: this process runs, sequentially, the chunks c with c % n == s (DESIGN 3.1.4)
    let shard: Option<(usize, usize)> = if m.contains_key("shard") { Some((geti(m, "shard", 0) as usize, (geti(m, "of", 1) as usize).max(1))) } else { None };
    let hashes_out = m.get("hashes-out").cloned();
    let mut hash_dump: Vec<(Vec<u64>, Vec<u64>)> = vec![];

    let mut res = J::obj().set("engine", J::s("io")).set("seed", J::Int(seed as i64)).set("workers", J::u(if shard.is_some() { 1 } else { workers }));
    if let Some((sh, of)) = shard {
        res.put("shard", J::u(sh));
        res.put("of", J::u(of));
    }
    let mut violation: Option<(String, i64, io::IoPlan, io::Violation)> = None;
    let mut total_violations = 0usize;

    if let Some(path) = m.get("write-crash-replay") {
        // the driver saw this very command die from a signal while executing the chunk that ends with
        // plan `crash-index` of batch `crash-source` (<out>.cur): the replay file re-executes the shard up to there
        let source = m.get("crash-source").cloned().unwrap_or_else(|| "sweep".into());
        let idx = geti(m, "crash-index", 0) as usize;
        let plan = if source == "sweep" { io_gen::sweep(sweep_values).0[idx].clone() } else { io_run::seeded_plan(seed, idx) };
        let v = io::Violation {
            invariant: io_run::CRASH_INVARIANT.into(),
            step: 0,
            ty: plan.records.first().map(|r| r.ty).unwrap_or(model::Ty::Fr),
            c: plan.records.first().map(|r| r.c).unwrap_or(false),
            expected: "every serialize/deserialize call returns and the process survives".into(),
            observed: format!("the process was killed by signal {} while executing the chunk of plans ending here", m.get("crash-signal").cloned().unwrap_or_default()),
            phase: "serialize",
        };
        let mut rj = io_run::replay_json(&property, seed, idx as i64, &source, &plan, &plan, &v, &[]);
        let (sh, of) = shard.unwrap_or((0, 1));
        rj.put(
            "prelude",
            J::obj()
                .set("source", J::s(&source))
                .set("from", J::u(0))
                .set("upto", J::u(idx))
                .set("values_per_type", J::u(sweep_values))
                .set("shard", J::u(sh))
                .set("of", J::u(of))
                .set("after_sweep", J::Bool(source == "search" && do_sweep)),
        );
        if let Err(e) = std::fs::write(path, util::with_knob(rj).pretty()) {
            harness_error(&format!("cannot write {}: {}", path, e));
        }
        return 0;
    }
    let marker = |batch: &str| {
        if shard.is_some() && out != "/dev/stdout" {
            *io_run::CUR_MARKER.lock().unwrap() = Some((format!("{}.cur", out), batch.to_string()));
        }
    };

    // ---- systematic sweep
    let mut sweep_j = J::obj();
    if do_sweep {
        let ts = Instant::now();
        let (plans, dims) = io_gen::sweep(sweep_values);
        let n = plans.len();
        marker("sweep");
        let b = io_run::run_batch_sharded(n, workers, None, &known, shard, |i| plans[i].clone());
        hash_dump.push((b.all_hashes.clone(), b.nontrivial_hashes.clone()));
        let mut dj = J::obj();
        for (k, v) in &dims {
            dj.put(k, J::u(*v));
        }
        sweep_j = J::obj()
            .set("exhaustive", J::Bool(true))
            .set("cases", J::u(b.digests.len()))
            .set("cases_all_shards", J::u(n))
            .set("values_per_type", J::u(sweep_values))
            .set("dimensions", dj)
            .set("distinct_plans", J::u(io_run::count_distinct(b.all_hashes.clone())))
            .set("distinct_nontrivial", J::u(io_run::count_distinct(b.nontrivial_hashes.clone())))
            .set("steps", J::Int(b.steps as i64))
            .set("faults_fired", J::Int(b.faults as i64))
            .set("counters", b.counters.to_json())
            .set("digest", J::s(&format!("{:016x}", io_run::fold_digests(&b.digests))))
            .set("violations", J::u(b.violations))
            .set("wall_s", J::Num(ts.elapsed().as_secs_f64()));
        total_violations += b.violations;
        if let Some((i, p, v)) = b.first_violation {
            violation = Some(("sweep".into(), i as i64, p, v));
        }
    }
    res.put("sweep", sweep_j);

    // ---- seeded search
    let ts = Instant::now();
    let deadline = if secs > 0 { Some(Instant::now() + Duration::from_secs(secs)) } else { None };
    marker("search");
    let b = io_run::run_batch_sharded(runs, workers, deadline, &known, shard, |i| io_run::seeded_plan(seed, i));
    hash_dump.push((b.all_hashes.clone(), b.nontrivial_hashes.clone()));
    let done = b.digests.len();
    let mut samples = vec![];
    if !digest_only {
        for i in [0usize, 1, 2, 3, 4, 5, 6, 7] {
            if i < done && shard.map(|(sh, of)| (i / io_run::CHUNK) % of == sh).unwrap_or(true) {
                let p = io_run::seeded_plan(seed, i);
                let r = io_run::execute_isolated(&p, true);
                if r.faults_fired > 0 && samples.len() < 3 {
                    samples.push(J::obj().set("run_index", J::u(i)).set("plan", p.to_json()).set("event_log", J::Arr(r.log.iter().map(|l| J::s(l)).collect())));
                }
            }
        }
    }
    let prefix: Vec<J> = [1000usize, 10_000, 100_000, 1_000_000]
        .iter()
        .filter(|n| **n <= done && shard.is_none())
        .map(|n| J::obj().set("runs", J::u(*n)).set("digest", J::s(&format!("{:016x}", io_run::fold_digests(&b.digests[..*n])))))
        .collect();
    let search_j = J::obj()
        .set("runs", J::u(done))
        .set("runs_requested", J::u(runs))
        .set("index_bound", J::u(b.max_index_plus_one))
        .set("steps", J::Int(b.steps as i64))
        .set("faults_fired", J::Int(b.faults as i64))
        .set("distinct_plans", J::u(io_run::count_distinct(b.all_hashes.clone())))
        .set("distinct_nontrivial", J::u(io_run::count_distinct(b.nontrivial_hashes.clone())))
        .set("strata", b.strata.to_json())
        .set("counters", b.counters.to_json())
        .set("digest", J::s(&format!("{:016x}", io_run::fold_digests(&b.digests))))
        .set("prefix_digests", J::Arr(prefix))
        .set("violations", J::u(b.violations))
        .set("samples", J::Arr(samples))
        .set("wall_s", J::Num(ts.elapsed().as_secs_f64()));
    res.put("search", search_j);
    total_violations += b.violations;
    if violation.is_none() {
        if let Some((i, p, v)) = b.first_violation {
            violation = Some(("search".into(), i as i64, p, v));
        }
    }

    let mut code = 0;
    if let Some((source, idx, plan, v)) = violation {
        let (minp, minv, tries) = io_run::minimise(&plan, &v);
        let r = io_run::execute_isolated(&minp, true);
        let _ = std::fs::create_dir_all(&replay_dir);
        let path = format!("{}/{}-{}-{}{}.json", replay_dir, property, seed, if source == "sweep" { "sweep" } else { "run" }, idx);
        let rj = io_run::replay_json(&property, seed, idx, &source, &minp, &plan, &minv, &r.log);
        if let Err(e) = std::fs::write(&path, util::with_knob(rj).pretty()) {
            harness_error(&format!("cannot write {}: {}", path, e));
        }
        // the minimised plan must fail the same way in a fresh process
        let exe = std::env::current_exe().unwrap();
        let st = std::process::Command::new(&exe).arg("replay").arg(&path).arg("--quiet").status();
        let mut reproduced = matches!(st.as_ref().map(|s| s.code()), Ok(Some(1)));
        let mut with_prelude = false;
        if !reproduced {
            // it may depend on per-thread library state left behind by earlier plans of its chunk, or on
            // process-global state left behind by the whole batch prefix: replay the batch as it ran
            for (from, after_sweep) in [((idx as usize / io_run::CHUNK) * io_run::CHUNK, false), (0usize, false), (0usize, true)] {
                if after_sweep && !(source == "search" && do_sweep) {
                    continue;
                }
                let mut rj2 = io_run::replay_json(&property, seed, idx, &source, &plan, &plan, &v, &r.log);
                let (sh, of) = shard.unwrap_or((0, 1));
                rj2.put(
                    "prelude",
                    J::obj()
                        .set("source", J::s(&source))
                        .set("from", J::u(from))
                        .set("upto", J::Int(idx))
                        .set("values_per_type", J::u(sweep_values))
                        .set("shard", J::u(sh))
                        .set("of", J::u(of))
                        .set("after_sweep", J::Bool(after_sweep)),
                );
                if std::fs::write(&path, util::with_knob(rj2).pretty()).is_ok() {
                    let st = std::process::Command::new(&exe).arg("replay").arg(&path).arg("--quiet").status();
                    if matches!(st.as_ref().map(|s| s.code()), Ok(Some(1))) {
                        reproduced = true;
                        with_prelude = true;
                        break;
                    }
                }
            }
        }
        res.put(
            "violation",
            J::obj()
                .set("replay", J::s(&path))
                .set("source", J::s(&source))
                .set("index", J::Int(idx))
                .set("detail", minv.to_json())
                .set("minimise_tries", J::u(tries))
                .set("original_steps", J::u(plan.records.len() + plan.reads.len()))
                .set("minimised_steps", J::u(minp.records.len() + minp.reads.len()))
                .set("needed_batch_prefix_as_prelude", J::Bool(with_prelude))
                .set("reproduced_in_fresh_process", J::Bool(reproduced)),
        );
        if !reproduced {
            res.put("harness_error", J::s("minimised plan did not reproduce in a fresh process"));
            code = 2;
        } else {
            code = 1;
        }
    }
    res.put("violations", J::u(total_violations));
    res.put("probe_thread_local_already_destroyed_in_exit_destructor", J::u(io_run::TLS_GONE.load(std::sync::atomic::Ordering::Relaxed)));
    res.put("wall_s", J::Num(t0.elapsed().as_secs_f64()));
    if let Some(hp) = hashes_out {
        // raw little-endian u64s: for each batch (sweep, search): count, all plan hashes, count, non-trivial ones
        let mut bytes: Vec<u8> = vec![];
        for (all, nt) in &hash_dump {
            for list in [all, nt] {
                bytes.extend_from_slice(&(list.len() as u64).to_le_bytes());
                for h in list.iter() {
                    bytes.extend_from_slice(&h.to_le_bytes());
                }
            }
        }
        if let Err(e) = std::fs::write(&hp, bytes) {
            harness_error(&format!("cannot write {}: {}", hp, e));
        }
    }
    let res = util::with_knob(res);
    if let Err(e) = std::fs::write(&out, res.pretty()) {
        harness_error(&format!("cannot write {}: {}", out, e));
    }
    code
}

fn cmd_replay(m: &HashMap<String, String>) -> i32 {
    quiet_panics();
    let path = match m.get("_0") {
        Some(p) => p.clone(),
        None => harness_error("usage: pp-sim replay <file>"),
    };
    let quiet = m.contains_key("quiet");
    let txt = match std::fs::read_to_string(&path) {
        Ok(t) => t,
        Err(e) => harness_error(&format!("{}: {}", path, e)),
    };
    let j = match json::parse(&txt) {
        Ok(j) => j,
        Err(e) => harness_error(&format!("{}: {}", path, e)),
    };
    if let Some(c) = j.get("cpus").and_then(|c| c.as_arr()) {
        // the run that wrote this file was confined to these CPUs
        if c.len() == 2 {
            util::set_cpu_knob(c[0].as_usize().unwrap_or(0), c[1].as_usize().unwrap_or(0));
        }
    }
    let engine = j.get("engine").and_then(|e| e.as_str()).unwrap_or("");
    let property = j.get("property").and_then(|e| e.as_str()).unwrap_or("?").to_string();
    match engine {
        "io" if j.get("violation").and_then(|v| v.get("invariant")).and_then(|x| x.as_str()) == Some(io_run::CRASH_INVARIANT) && std::env::var("PP_SIM_CRASH_CHILD").is_err() => {
            // the recorded violation is the death of the process: re-execute in a child and look at how it ends
            use std::os::unix::process::ExitStatusExt;
            let exe = std::env::current_exe().unwrap();
            match std::process::Command::new(&exe).arg("replay").arg(&path).arg("--quiet").env("PP_SIM_CRASH_CHILD", "1").status() {
                Ok(s) if s.signal().is_some() => {
                    if !quiet {
                        println!("violated: {}: the process executing the plans was killed by signal {}", io_run::CRASH_INVARIANT, s.signal().unwrap());
                        println!("VIOLATION property={} replay={}", property, path);
                    }
                    1
                }
                Ok(s) if s.code() == Some(1) || s.code() == Some(3) => {
                    if !quiet {
                        println!("a different violation occurred (recorded: the process was killed by a signal)");
                        println!("VIOLATION property={} replay={}", property, path);
                    }
                    3
                }
                Ok(s) if s.code() == Some(0) => {
                    if !quiet {
                        println!("replay of {}: no violation on this tree", path);
                    }
                    0
                }
                other => harness_error(&format!("replay child of {} ended unexpectedly: {:?}", path, other)),
            }
        }
        "io" => match io_run::replay_file(&path) {
            Ok((v, want, log)) => {
                if !quiet {
                    for l in &log {
                        println!("  {}", l);
                    }
                }
                match v {
                    Some(v) if v.class() == want || want.is_empty() => {
                        if !quiet {
                            println!("violated: {} (step {}): expected {}; observed {}", v.invariant, v.step, v.expected, v.observed);
                            println!("VIOLATION property={} replay={}", property, path);
                        }
                        1
                    }
                    Some(v) => {
                        if !quiet {
                            println!("a different violation occurred: {} (recorded: {})", v.class(), want);
                            println!("VIOLATION property={} replay={}", property, path);
                        }
                        3
                    }
                    None => {
                        if !quiet {
                            println!("replay of {}: no violation on this tree", path);
                        }
                        0
                    }
                }
            }
            Err(e) => harness_error(&e),
        },
        "sched" => sched_run::replay(&path, &j, quiet),
        other => harness_error(&format!("unknown engine {:?} in {}", other, path)),
    }
}

fn main() {
    let args: Vec<String> = std::env::args().skip(1).collect();
    if args.is_empty() {
        harness_error("usage: pp-sim <io|sched|replay> ...");
    }
    let m = args_map(&args[1..]);
    if m.contains_key("cpus") {
        util::set_cpu_knob(geti(&m, "cpu-first", 0) as usize, geti(&m, "cpus", 0) as usize);
    }
    let code = match args[0].as_str() {
        "io" => cmd_io(&m),
        "replay" => cmd_replay(&m),
        "sched" => sched_run::cmd_sched(&m),
        "miri" => miri_run::cmd_miri(&m),
        "pools" => {
            let p = spool::spools();
            println!("points: g1 {} ({} in subgroup), g2 {} ({} in subgroup); scalars: {}", p.g1.len(), p.g1_nsub, p.g2.len(), p.g2_nsub, p.scalars.len());
            for (i, s) in p.scalars.iter().enumerate() {
                println!("  k{:<3} {:<28} {:016x}{:016x}{:016x}{:016x}{}", i, s.name, s.l[3], s.l[2], s.l[1], s.l[0], if s.lt255 { "" } else { "  (>= 2^255: plain and table paths only)" });
            }
            0
        }
        other => harness_error(&format!("unknown command {}", other)),
    };
    std::process::exit(code)
}
