//! Engine C — the program run under `cargo +nightly miri run` (DESIGN §3.3): free-running
//! threads (Miri's seeded scheduler decides and may preempt at any basic block) execute
//! Miri-cheap operation groups on shared inputs; every image is compared with an isolated
//! evaluation made first. Data races, deadlocks and UB are reported by Miri itself.
//! Also runs natively (as a smoke test of the scenario code).

use crate::ops::*;
use crate::sched::*;
use crate::{geti, harness_error};
use std::collections::HashMap;

fn ops(list: &[&str]) -> Vec<Op> {
    list.iter().map(|s| Op::from_json(&crate::json::J::s(s)).unwrap()).collect()
}

/// Operation groups, shaped to need few field multiplications (tiny scalars: indices 0..=5
/// of the scalar pool are 0,1,2,3,5,0x2b; points 0..=3 are O, G, 2G, -G under Miri).
pub fn groups() -> Vec<(&'static str, Vec<Op>, bool)> {
    // (name, ops, quick?)
    vec![
        ("fields_lite", ops(&["fields_lite 2 3", "fields_lite 3 2", "fields_lite 2 2", "fr_ops 2 3"]), true),
        ("fq_inverse_sqrt", ops(&["fq_ops 2 3", "fq_ops 3 2"]), true),
        ("g1_arith_mul", ops(&["g1_arith 1 2", "g1_mul 2 4", "g1_amul 1 5", "g1_ymul 3 3", "g1_arith 2 2", "g1_affine 2", "g1_batchnorm 1 2", "g1_mul 1 5"]), true),
        ("g2_arith_mul", ops(&["g2_arith 1 2", "g2_mul 2 4", "g2_amul 1 3", "g2_arith 3 1", "g2_batchnorm 1 1"]), true),
        (
            "g1_wnaf",
            ops(&["g1_wnaf_bs 1 1 0 4", "g1_wnaf_sb 1 5 2", "g1_wnaf_bs 0 2 0 5", "g1_wnaf_view_b 0 5", "g1_wnaf_view_s 0 2", "g1_wnaf_raw 1 5 0 1", "g1_wnaf_sb 2 3 1", "g1_wnaf_half 1 4", "g1_wnaf_sb 1 4 3", "g1_wnaf_bs_multi 1 2 0 3 5"]),
            true,
        ),
        ("g2_wnaf", ops(&["g2_wnaf_sb 1 5 2", "g2_wnaf_view_b 0 4", "g2_wnaf_view_s 0 1", "g2_wnaf_raw 2 4 0 1", "g2_wnaf_sb 1 3 1"]), true),
        ("msm", ops(&["g1_sop 2 1 1", "g1_pip 2 1 2 2", "g1_x_pip_topbit 1 1", "g1_sop 2 1 1", "g1_pip 2 2 1 3", "g2_sop 2 1 2", "g1_x_pip_topbit 2 3", "g1_pip 2 1 0 1"]), true),
        ("serdes_hash", ops(&["fr_serdes 2", "fq12_serdes 2", "h2f 0 0 1 0 0", "h2f 1 1 2 1 0", "g1_compress 2", "g2_compress 1", "g1_rec_scalar 9", "g2_rec_num 0 7", "x_xmd_long"]), true),
        ("tables3", ops(&["g1_mul3 1 5", "g1_mul3 1 4", "g1_pre3 1"]), true),
        ("identity_paths", ops(&["g1_decode 0 0", "g1_decode 1 0", "g1_insub 0", "g2_insub 0", "g1_serdes 0 1 0", "g1_serdes 0 0 1", "g2_serdes 0 1 1", "g2_decode 0 0"]), true),
        ("e2c_g1", ops(&["g1_e2c 0 1 0"]), true),
        ("g2_prepare", ops(&["g2_prepare 1", "g2_prepare 2", "g2_prepare 1", "g1_prepare 2", "g2_prepare 2", "g2_prepare 1"]), false),
        ("prepare_miller", ops(&["g2_prepare 1", "g2_prepare 2", "g2_prepare 1", "g2_prepare 3", "g2_prepare 2", "miller 1 1 1 0", "g2_prepare 1", "miller 2 1 2 1"]), false),
        ("pairing", ops(&["pairing 1 1", "finalexp 2", "x_multi_short"]), false),
        ("h2c", ops(&["g1_e2c 0 1 0", "g1_h2c 0 2 1", "g2_e2c 1 1 1"]), false),
        ("decode", ops(&["g1_decode 2 0", "g1_serdes 1 0 0", "g1_decode 3 1", "g1_insub 2"]), false),
        ("g2_tables3", ops(&["g2_mul3 1 5", "g2_pre3 1"]), false),
        ("nop", ops(&["nop"]), false),
        ("misc_surface", ops(&["misc2 0 3", "misc2 1 2", "misc2 9 1", "misc2 5 2", "misc2 3 1", "misc 1 3", "misc2 0 70", "misc2 6 1", "fr_serdes 2 3", "g1_serdes 1 1 0 4", "g1_serdes 1 1 1 3"]), true),
        ("map_direct", ops(&["misc2 7 1", "misc2 2 3", "misc2 8 1"]), false),
    ]
}

pub fn cmd_miri(m: &HashMap<String, String>) -> i32 {
    crate::quiet_panics();
    let gs = groups();
    if m.contains_key("list") {
        for (i, g) in gs.iter().enumerate() {
            println!("{} {} {} {}", i, g.0, if g.2 { "quick" } else { "thorough" }, g.1.len());
        }
        return 0;
    }
    let a = geti(m, "group-a", 0) as usize;
    let b = geti(m, "group-b", a as u64) as usize;
    let nthreads = geti(m, "threads", 2).clamp(2, 4) as usize;
    let reps = geti(m, "reps", 1).max(1) as usize;
    if a >= gs.len() || b >= gs.len() {
        harness_error("no such group");
    }
    // thread t runs group a (even t) or group b (odd t); odd-numbered repetitions run reversed
    let mut threads = vec![];
    for t in 0..nthreads {
        let src = if t % 2 == 0 { &gs[a].1 } else { &gs[b].1 };
        let mut v: Vec<Op> = vec![];
        for r in 0..reps {
            let mut part = src.clone();
            if (t / 2 + r) % 2 == 1 {
                part.reverse();
            }
            v.extend(part);
        }
        threads.push(ThreadPlan { ops: v, ..Default::default() });
    }
    let plan = SchedPlan {
        focus: "c20".into(),
        threads,
        views_b: vec![(1, 1, 0), (2, 1, 0)],
        views_s: vec![(1, 5), (2, 4)],
        nshared_ctx: 2,
        yield_mask: 0,
        schedule: Schedule::Sequential,
    };
    let all_ops: Vec<Op> = plan.threads.iter().flat_map(|t| t.ops.iter().cloned()).collect();
    let shared = Shared::build_for(&all_ops);
    println!("miri-scenario groups {}({}) x {}({}) threads {} reps {}", a, gs[a].0, b, gs[b].0, nthreads, reps);

    // ---- isolated references first (fresh thread per operation)
    let mut refs = Refs::new();
    ensure_refs_pub(&plan, &mut refs, &shared);
    println!("references computed: {}", refs.computed);

    // ---- free-running threads: Miri's scheduler decides
    let rs = RunShared::new(plan.nshared_ctx, RunShared::needs_prepared(&all_ops));
    let results: Vec<Vec<(String, Outcome)>> = with_objs_pub(&plan, nthreads, |objs| {
        std::thread::scope(|s| {
            let mut hs = vec![];
            for (i, mut tl) in objs.into_iter().enumerate() {
                let tp = &plan.threads[i];
                let shared = &shared;
                let rs = &rs;
                let plan = &plan;
                hs.push(s.spawn(move || {
                    let mut out = vec![];
                    for op in &tp.ops {
                        let (o, _) = eval_caught_pub(op, shared, rs, &mut tl);
                        out.push((view_key_pub(plan, op), o));
                    }
                    out
                }));
            }
            hs.into_iter().map(|h| h.join().unwrap()).collect()
        })
    });
    let mut bad = 0;
    let mut n = 0;
    for (t, v) in results.iter().enumerate() {
        for (i, (key, o)) in v.iter().enumerate() {
            n += 1;
            let same = match (refs.map.get(key), o) {
                (Some(Outcome::Image(e)), Outcome::Image(g)) => e == g,
                (Some(Outcome::LibPanic(_)), Outcome::LibPanic(_)) => false,
                _ => false,
            };
            if !same {
                bad += 1;
                println!("MISMATCH thread {} op {} {}: concurrent evaluation differs from the isolated one", t, i, key);
            }
        }
    }
    println!("compared {} images, {} mismatches", n, bad);
    if bad > 0 {
        1
    } else {
        0
    }
}
