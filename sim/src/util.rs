//! PRNG (SplitMix64 -> xoshiro256**), run digests, hex helpers. Implemented here so
//! that no dependency's stream can change the meaning of a seed.

#[derive(Clone, Debug)]
pub struct Rng {
    s: [u64; 4],
}

pub fn splitmix(x: &mut u64) -> u64 {
    *x = x.wrapping_add(0x9E37_79B9_7F4A_7C15);
    let mut z = *x;
    z = (z ^ (z >> 30)).wrapping_mul(0xBF58_476D_1CE4_E5B9);
    z = (z ^ (z >> 27)).wrapping_mul(0x94D0_49BB_1331_11EB);
    z ^ (z >> 31)
}

/// sub-seed of run `i` of engine `engine` in the batch selected by `seed`
pub fn mix(seed: u64, engine: u64, i: u64) -> u64 {
    let mut x = seed ^ 0xA076_1D64_78BD_642F;
    let a = splitmix(&mut x);
    let mut y = a ^ engine.wrapping_mul(0xE703_7ED1_A0B4_28DB);
    let b = splitmix(&mut y);
    let mut z = b ^ i.wrapping_mul(0x8EBC_6AF0_9C88_C6E3);
    splitmix(&mut z)
}

impl Rng {
    pub fn new(seed: u64) -> Rng {
        let mut x = seed;
        let s = [splitmix(&mut x), splitmix(&mut x), splitmix(&mut x), splitmix(&mut x)];
        Rng { s }
    }
    pub fn next(&mut self) -> u64 {
        let r = self.s[1].wrapping_mul(5).rotate_left(7).wrapping_mul(9);
        let t = self.s[1] << 17;
        self.s[2] ^= self.s[0];
        self.s[3] ^= self.s[1];
        self.s[1] ^= self.s[2];
        self.s[0] ^= self.s[3];
        self.s[2] ^= t;
        self.s[3] = self.s[3].rotate_left(45);
        r
    }
    /// uniform in 0..n (n > 0)
    pub fn below(&mut self, n: usize) -> usize {
        debug_assert!(n > 0);
        (self.next() % (n as u64)) as usize
    }
    /// uniform in lo..=hi
    pub fn range(&mut self, lo: usize, hi: usize) -> usize {
        lo + self.below(hi - lo + 1)
    }
    /// true with probability num/den
    pub fn chance(&mut self, num: u64, den: u64) -> bool {
        self.next() % den < num
    }
    pub fn pick<'a, T>(&mut self, v: &'a [T]) -> &'a T {
        &v[self.below(v.len())]
    }
}

/// rand_core 0.5 adapter over the harness PRNG (workload source for `random(rng)` calls)
pub struct CoreRng(pub Rng);
impl rand_core::RngCore for CoreRng {
    fn next_u32(&mut self) -> u32 {
        (self.0.next() >> 32) as u32
    }
    fn next_u64(&mut self) -> u64 {
        self.0.next()
    }
    fn fill_bytes(&mut self, dest: &mut [u8]) {
        for c in dest.chunks_mut(8) {
            let v = self.0.next().to_le_bytes();
            c.copy_from_slice(&v[..c.len()]);
        }
    }
    fn try_fill_bytes(&mut self, dest: &mut [u8]) -> Result<(), rand_core::Error> {
        self.fill_bytes(dest);
        Ok(())
    }
}

/// 64-bit FNV-1a with a final avalanche; used for event-log digests
#[derive(Clone, Copy, Debug)]
pub struct Digest(pub u64);
impl Digest {
    pub fn new() -> Digest {
        Digest(0xcbf2_9ce4_8422_2325)
    }
    pub fn bytes(&mut self, b: &[u8]) {
        for &x in b {
            self.0 ^= x as u64;
            self.0 = self.0.wrapping_mul(0x0000_0100_0000_01B3);
        }
        // length separator
        self.u64(b.len() as u64 ^ 0x5555);
    }
    pub fn u64(&mut self, v: u64) {
        for i in 0..8 {
            self.0 ^= (v >> (8 * i)) & 0xff;
            self.0 = self.0.wrapping_mul(0x0000_0100_0000_01B3);
        }
    }
    pub fn str(&mut self, s: &str) {
        self.bytes(s.as_bytes())
    }
    pub fn finish(&self) -> u64 {
        let mut x = self.0;
        splitmix(&mut x)
    }
}

pub fn hash_bytes(b: &[u8]) -> u64 {
    let mut d = Digest::new();
    d.bytes(b);
    d.finish()
}

pub fn hex(b: &[u8]) -> String {
    let mut s = String::with_capacity(b.len() * 2);
    for x in b {
        s.push_str(&format!("{:02x}", x));
    }
    s
}

pub fn unhex(s: &str) -> Result<Vec<u8>, String> {
    if s.len() % 2 != 0 {
        return Err("odd hex length".into());
    }
    let mut v = Vec::with_capacity(s.len() / 2);
    for i in (0..s.len()).step_by(2) {
        v.push(u8::from_str_radix(&s[i..i + 2], 16).map_err(|e| e.to_string())?);
    }
    Ok(v)
}

/// big-endian byte comparison a < b (equal lengths)
pub fn be_lt(a: &[u8], b: &[u8]) -> bool {
    debug_assert_eq!(a.len(), b.len());
    for i in 0..a.len() {
        if a[i] != b[i] {
            return a[i] < b[i];
        }
    }
    false
}

/// hex of the r and q moduli, hard-coded in the harness and cross-checked against the
/// library's `char()` at start-up.
pub const R_HEX: &str = "73eda753299d7d483339d80809a1d80553bda402fffe5bfeffffffff00000001";
pub const Q_HEX: &str = "1a0111ea397fe69a4b1ba7b6434bacd764774b84f38512bf6730d2a0f6b0f6241eabfffeb153ffffb9feffffffffaaab";


// ---------------------------------------------------------------- CPU knob

use std::sync::atomic::{AtomicUsize, Ordering as AOrd};
static KNOB_FIRST: AtomicUsize = AtomicUsize::new(0);
static KNOB_CPUS: AtomicUsize = AtomicUsize::new(0);

extern "C" {
    fn sched_setaffinity(pid: i32, cpusetsize: usize, mask: *const u64) -> i32;
}

/// Confine this process to `k` CPUs starting at `first` (wrapping at the number of CPUs it may use now):
/// what `std::thread::available_parallelism()` reports is a knob of the environment a library may read;
/// the simulator sets it per process and records it in replay files. k = 0: leave everything as it is.
pub fn set_cpu_knob(first: usize, k: usize) {
    if k == 0 {
        return;
    }
    let n = std::thread::available_parallelism().map(|x| x.get()).unwrap_or(1);
    if n <= k {
        return;
    }
    let mut mask = [0u64; 16];
    for j in 0..k {
        let c = (first + j) % n;
        mask[c / 64] |= 1u64 << (c % 64);
    }
    let rc = unsafe { sched_setaffinity(0, std::mem::size_of_val(&mask), mask.as_ptr()) };
    if rc == 0 {
        KNOB_FIRST.store(first, AOrd::Relaxed);
        KNOB_CPUS.store(k, AOrd::Relaxed);
    }
}
/// (first, k) if the knob is set
pub fn cpu_knob() -> Option<(usize, usize)> {
    let k = KNOB_CPUS.load(AOrd::Relaxed);
    if k == 0 {
        None
    } else {
        Some((KNOB_FIRST.load(AOrd::Relaxed), k))
    }
}
/// add the knob to a replay / result object
pub fn with_knob(mut j: crate::json::J) -> crate::json::J {
    if let Some((f, k)) = cpu_knob() {
        j.put("cpus", crate::json::J::Arr(vec![crate::json::J::u(f), crate::json::J::u(k)]));
    }
    j
}
