//! Engine A — fault-injecting byte streams around SerDes (DESIGN §3.1). Decides C19.

use crate::json::J;
use crate::model::*;
use crate::util::{hex, unhex, Digest};
use std::io::{self, ErrorKind, Read, Write};
use std::panic::{catch_unwind, AssertUnwindSafe};

// ---------------------------------------------------------------- stream actions

#[derive(Clone, Copy, Debug, PartialEq, Eq)]
pub enum Kind {
    Other,
    BrokenPipe,
    ConnectionReset,
    TimedOut,
    WouldBlock,
    UnexpectedEof,
    /// what decompressing / decrypting / decoding adapters report for corrupt input - the same kinds the
    /// library itself uses for its own verdicts, here coming from the caller's stream
    InvalidData,
    InvalidInput,
    WriteZero,
    /// kind `InvalidData` carrying a payload of the caller's own error type
    InvalidDataWithPayload,
    /// an error made from a raw OS error number (EIO), no payload
    RawOs,
}
pub const KINDS: [Kind; 11] = [
    Kind::Other,
    Kind::BrokenPipe,
    Kind::ConnectionReset,
    Kind::TimedOut,
    Kind::WouldBlock,
    Kind::UnexpectedEof,
    Kind::InvalidData,
    Kind::InvalidInput,
    Kind::WriteZero,
    Kind::InvalidDataWithPayload,
    Kind::RawOs,
];

#[derive(Debug)]
struct CallerError(u32);
impl std::fmt::Display for CallerError {
    fn fmt(&self, f: &mut std::fmt::Formatter) -> std::fmt::Result {
        write!(f, "caller's stream error {}", self.0)
    }
}
impl std::error::Error for CallerError {}
impl Kind {
    pub fn name(self) -> &'static str {
        match self {
            Kind::Other => "other",
            Kind::BrokenPipe => "broken_pipe",
            Kind::ConnectionReset => "connection_reset",
            Kind::TimedOut => "timed_out",
            Kind::WouldBlock => "would_block",
            Kind::UnexpectedEof => "unexpected_eof",
            Kind::InvalidData => "invalid_data",
            Kind::InvalidInput => "invalid_input",
            Kind::WriteZero => "write_zero",
            Kind::InvalidDataWithPayload => "invalid_data_with_payload",
            Kind::RawOs => "raw_os",
        }
    }
    fn parse(s: &str) -> Result<Kind, String> {
        KINDS.iter().copied().find(|k| k.name() == s).ok_or_else(|| format!("bad kind {}", s))
    }
    fn to_io(self) -> io::Error {
        let k = match self {
            Kind::Other => ErrorKind::Other,
            Kind::BrokenPipe => ErrorKind::BrokenPipe,
            Kind::ConnectionReset => ErrorKind::ConnectionReset,
            Kind::TimedOut => ErrorKind::TimedOut,
            Kind::WouldBlock => ErrorKind::WouldBlock,
            Kind::UnexpectedEof => ErrorKind::UnexpectedEof,
            Kind::InvalidData => return io::Error::from(ErrorKind::InvalidData), // bare kind, no payload
            Kind::InvalidInput => ErrorKind::InvalidInput,
            Kind::WriteZero => ErrorKind::WriteZero,
            Kind::InvalidDataWithPayload => return io::Error::new(ErrorKind::InvalidData, CallerError(7)),
            Kind::RawOs => return io::Error::from_raw_os_error(5),
        };
        io::Error::new(k, "injected")
    }
}

/// one scripted reaction of a stream to one `read`/`write` call
#[derive(Clone, Copy, Debug, PartialEq, Eq)]
pub enum Act {
    Full,
    /// transfer at most n bytes (clamped to 1..len-1 for writes, 1..min(len,remaining) for reads)
    Short(usize),
    /// writer only: accept nothing, return Ok(0)
    Zero,
    Eintr,
    Fail(Kind),
    /// fail now and on every later call
    FailForever(Kind),
    /// the caller's stream panics (the caller catches the panic and goes on using the library)
    Panic,
    /// the caller's stream itself uses the library before it transfers everything asked for (a framing
    /// reader that validates a serialized key, a writer that prefixes a serialized sequence number):
    /// a nested round trip of an Fr, a G1Affine and an Fq12 on plain vectors, which must behave as usual
    Reenter,
}
impl Act {
    pub fn to_json(&self) -> J {
        match self {
            Act::Full => J::s("full"),
            Act::Short(n) => J::s(&format!("short:{}", n)),
            Act::Zero => J::s("zero"),
            Act::Eintr => J::s("eintr"),
            Act::Fail(k) => J::s(&format!("fail:{}", k.name())),
            Act::FailForever(k) => J::s(&format!("failforever:{}", k.name())),
            Act::Reenter => J::s("reenter"),
            Act::Panic => J::s("panic"),
        }
    }
    pub fn from_json(j: &J) -> Result<Act, String> {
        let s = j.as_str().ok_or("action must be a string")?;
        if s == "full" {
            Ok(Act::Full)
        } else if s == "zero" {
            Ok(Act::Zero)
        } else if s == "eintr" {
            Ok(Act::Eintr)
        } else if s == "reenter" {
            Ok(Act::Reenter)
        } else if s == "panic" {
            Ok(Act::Panic)
        } else if let Some(n) = s.strip_prefix("short:") {
            Ok(Act::Short(n.parse().map_err(|_| "short:n")?))
        } else if let Some(k) = s.strip_prefix("failforever:") {
            Ok(Act::FailForever(Kind::parse(k)?))
        } else if let Some(k) = s.strip_prefix("fail:") {
            Ok(Act::Fail(Kind::parse(k)?))
        } else {
            Err(format!("bad action {}", s))
        }
    }
    pub fn label(&self) -> &'static str {
        match self {
            Act::Full => "full",
            Act::Short(_) => "short",
            Act::Zero => "zero",
            Act::Eintr => "eintr",
            Act::Fail(_) => "fail_once",
            Act::FailForever(_) => "fail_forever",
            Act::Reenter => "reenter",
            Act::Panic => "stream_panic",
        }
    }
}

/// payload of a panic raised by a simulated stream (never by the library)
pub struct StreamPanic;

/// the nested library use of `Act::Reenter`; returns a description if anything but the usual happens
/// (a panic propagates into the outer library call, whose caller reports it)
pub fn nested_roundtrip() -> Option<String> {
    use pairing_plus::bls12_381::{Fq12, Fr, G1Affine};
    use pairing_plus::serdes::SerDes;
    use pairing_plus::CurveAffine;
    use ff_zeroize::Field;
    let mut v = vec![];
    let (a, b, c) = (Fr::one(), G1Affine::one(), Fq12::one());
    if a.serialize(&mut v, true).is_err() || b.serialize(&mut v, true).is_err() || c.serialize(&mut v, true).is_err() {
        return Some("a nested serialize to a Vec failed".into());
    }
    if v.len() != 32 + 48 + 576 {
        return Some(format!("nested serialize wrote {} bytes, not 656", v.len()));
    }
    let mut r = &v[..];
    match (Fr::deserialize(&mut r, true), G1Affine::deserialize(&mut r, true), Fq12::deserialize(&mut r, true)) {
        (Ok(x), Ok(y), Ok(z)) if x == a && y == b && z == c && r.is_empty() => None,
        _ => Some("a nested round trip did not return the values written".into()),
    }
}

/// per-operation bookkeeping of what the stream did during one serialize/deserialize call
#[derive(Clone, Debug, Default)]
pub struct OpStats {
    pub calls: usize,
    pub progress_calls: usize,
    pub shorts: usize,
    pub zeros: usize,
    pub eintrs: usize,
    pub fails: usize,
    pub eofs: usize,
    pub bytes: usize,
    pub max_request: usize,
    pub kinds: Vec<&'static str>,
}
impl OpStats {
    pub fn nonprogress(&self) -> usize {
        self.zeros + self.eintrs + self.fails + self.eofs
    }
    /// faults after which an error is a legitimate outcome
    pub fn error_sources(&self) -> usize {
        self.zeros + self.eintrs + self.fails
    }
}

pub struct SimWriter {
    pub script: Vec<Act>,
    pub idx: usize,
    pub data: Vec<u8>,
    pub forever: Option<Kind>,
    pub op: OpStats,
    pub flushes: usize,
    pub contract_breach: Option<String>,
    pub nested_fault: Option<String>,
}

impl SimWriter {
    pub fn new(script: Vec<Act>) -> SimWriter {
        SimWriter { script, idx: 0, data: vec![], forever: None, op: OpStats::default(), flushes: 0, contract_breach: None, nested_fault: None }
    }
}

impl Write for SimWriter {
    fn write(&mut self, buf: &[u8]) -> io::Result<usize> {
        self.op.calls += 1;
        if buf.len() > self.op.max_request {
            self.op.max_request = buf.len();
        }
        if buf.is_empty() {
            return Ok(0);
        }
        if let Some(k) = self.forever {
            self.op.fails += 1;
            self.op.kinds.push("fail_forever");
            return Err(k.to_io());
        }
        let act = if self.idx < self.script.len() { self.script[self.idx] } else { Act::Full };
        self.idx += 1;
        match act {
            Act::Full => {
                self.data.extend_from_slice(buf);
                self.op.progress_calls += 1;
                self.op.bytes += buf.len();
                Ok(buf.len())
            }
            Act::Panic => {
                self.op.fails += 1;
                self.op.kinds.push("stream_panic");
                std::panic::panic_any(StreamPanic)
            }
            Act::Reenter => {
                self.op.kinds.push("reenter");
                if let Some(e) = nested_roundtrip() {
                    self.nested_fault.get_or_insert(e);
                }
                self.data.extend_from_slice(buf);
                self.op.progress_calls += 1;
                self.op.bytes += buf.len();
                Ok(buf.len())
            }
            Act::Short(n) => {
                if buf.len() == 1 {
                    self.data.extend_from_slice(buf);
                    self.op.progress_calls += 1;
                    self.op.bytes += 1;
                    return Ok(1);
                }
                let n = n.max(1).min(buf.len() - 1);
                self.data.extend_from_slice(&buf[..n]);
                self.op.progress_calls += 1;
                self.op.shorts += 1;
                self.op.kinds.push("short");
                self.op.bytes += n;
                Ok(n)
            }
            Act::Zero => {
                self.op.zeros += 1;
                self.op.kinds.push("zero");
                Ok(0)
            }
            Act::Eintr => {
                self.op.eintrs += 1;
                self.op.kinds.push("eintr");
                Err(io::Error::new(ErrorKind::Interrupted, "injected EINTR"))
            }
            Act::Fail(k) => {
                self.op.fails += 1;
                self.op.kinds.push("fail_once");
                Err(k.to_io())
            }
            Act::FailForever(k) => {
                self.forever = Some(k);
                self.op.fails += 1;
                self.op.kinds.push("fail_forever");
                Err(k.to_io())
            }
        }
    }
    fn flush(&mut self) -> io::Result<()> {
        self.flushes += 1;
        Ok(())
    }
}

pub struct SimReader<'a> {
    pub script: Vec<Act>,
    pub idx: usize,
    pub data: &'a [u8],
    pub pos: usize,
    pub forever: Option<Kind>,
    pub op: OpStats,
    pub nested_fault: Option<String>,
}

impl<'a> SimReader<'a> {
    pub fn new(data: &'a [u8], script: Vec<Act>) -> SimReader<'a> {
        SimReader { script, idx: 0, data, pos: 0, forever: None, op: OpStats::default(), nested_fault: None }
    }
}

impl<'a> Read for SimReader<'a> {
    fn read(&mut self, buf: &mut [u8]) -> io::Result<usize> {
        self.op.calls += 1;
        if buf.len() > self.op.max_request {
            self.op.max_request = buf.len();
        }
        if buf.is_empty() {
            return Ok(0);
        }
        if let Some(k) = self.forever {
            self.op.fails += 1;
            self.op.kinds.push("fail_forever");
            return Err(k.to_io());
        }
        let remaining = self.data.len() - self.pos;
        if remaining == 0 {
            // natural EOF; does not consume a scripted action
            self.op.eofs += 1;
            return Ok(0);
        }
        let act = if self.idx < self.script.len() { self.script[self.idx] } else { Act::Full };
        self.idx += 1;
        let blen = buf.len();
        let mut deliver = |this: &mut Self, n: usize| {
            buf[..n].copy_from_slice(&this.data[this.pos..this.pos + n]);
            this.pos += n;
            this.op.progress_calls += 1;
            this.op.bytes += n;
            n
        };
        match act {
            Act::Full | Act::Zero => {
                let n = blen.min(remaining);
                Ok(deliver(self, n))
            }
            Act::Panic => {
                self.op.fails += 1;
                self.op.kinds.push("stream_panic");
                std::panic::panic_any(StreamPanic)
            }
            Act::Reenter => {
                self.op.kinds.push("reenter");
                if let Some(e) = nested_roundtrip() {
                    self.nested_fault.get_or_insert(e);
                }
                let n = blen.min(remaining);
                Ok(deliver(self, n))
            }
            Act::Short(n) => {
                let full = blen.min(remaining);
                let n = n.max(1).min(full);
                if n < full {
                    self.op.shorts += 1;
                    self.op.kinds.push("short");
                }
                Ok(deliver(self, n))
            }
            Act::Eintr => {
                self.op.eintrs += 1;
                self.op.kinds.push("eintr");
                Err(io::Error::new(ErrorKind::Interrupted, "injected EINTR"))
            }
            Act::Fail(k) => {
                self.op.fails += 1;
                self.op.kinds.push("fail_once");
                Err(k.to_io())
            }
            Act::FailForever(k) => {
                self.forever = Some(k);
                self.op.fails += 1;
                self.op.kinds.push("fail_forever");
                Err(k.to_io())
            }
        }
    }
}

// ---------------------------------------------------------------- plan

#[derive(Clone, Debug, PartialEq)]
pub struct Rec {
    pub ty: Ty,
    pub c: bool,
    pub v: VDesc,
}

/// what disks and networks do to stored bytes, resolved to byte-level edits when the plan
/// is generated (so the plan is self-contained); `label` names the fault kind for counters
#[derive(Clone, Debug, PartialEq)]
pub enum SFault {
    Truncate { at: usize, label: String },
    Flip { bit: usize, label: String },
    /// replace `del` bytes at `off` by `ins` (off beyond the end: append)
    Splice { off: usize, del: usize, ins: Vec<u8>, label: String },
}
impl SFault {
    pub fn label(&self) -> &str {
        match self {
            SFault::Truncate { label, .. } | SFault::Flip { label, .. } | SFault::Splice { label, .. } => label,
        }
    }
    fn to_json(&self) -> J {
        match self {
            SFault::Truncate { at, label } => J::obj().set("truncate", J::u(*at)).set("label", J::s(label)),
            SFault::Flip { bit, label } => J::obj().set("flip_bit", J::u(*bit)).set("label", J::s(label)),
            SFault::Splice { off, del, ins, label } => {
                J::obj().set("splice_off", J::u(*off)).set("del", J::u(*del)).set("ins", J::s(&hex(ins))).set("label", J::s(label))
            }
        }
    }
    fn from_json(j: &J) -> Result<SFault, String> {
        let label = j.get("label").and_then(|l| l.as_str()).unwrap_or("storage").to_string();
        if let Some(a) = j.get("truncate") {
            return Ok(SFault::Truncate { at: a.as_usize().ok_or("truncate")?, label });
        }
        if let Some(a) = j.get("flip_bit") {
            return Ok(SFault::Flip { bit: a.as_usize().ok_or("flip_bit")?, label });
        }
        Ok(SFault::Splice { off: j.usize_of("splice_off")?, del: j.usize_of("del")?, ins: unhex(j.str_of("ins")?)?, label })
    }
    /// returns true if the fault changed the stored bytes
    pub fn apply(&self, data: &mut Vec<u8>) -> bool {
        match self {
            SFault::Truncate { at, .. } => {
                if *at < data.len() {
                    data.truncate(*at);
                    true
                } else {
                    false
                }
            }
            SFault::Flip { bit, .. } => {
                if bit / 8 < data.len() {
                    data[bit / 8] ^= 0x80 >> (bit % 8);
                    true
                } else {
                    false
                }
            }
            SFault::Splice { off, del, ins, .. } => {
                let off = (*off).min(data.len());
                let end = (off + *del).min(data.len());
                if end == off && ins.is_empty() {
                    return false;
                }
                if &data[off..end] == &ins[..] {
                    return false;
                }
                data.splice(off..end, ins.iter().copied());
                true
            }
        }
    }
}

#[derive(Clone, Debug, PartialEq)]
pub struct ReadSpec {
    pub ty: Ty,
    pub c: bool,
}

#[derive(Clone, Debug, PartialEq, Default)]
pub struct IoPlan {
    pub stratum: String,
    pub records: Vec<Rec>,
    pub wscript: Vec<Act>,
    pub sfaults: Vec<SFault>,
    pub reads: Vec<ReadSpec>,
    pub rscript: Vec<Act>,
}

impl IoPlan {
    pub fn to_json(&self) -> J {
        J::obj()
            .set("engine", J::s("io"))
            .set("stratum", J::s(&self.stratum))
            .set(
                "records",
                J::Arr(
                    self.records
                        .iter()
                        .map(|r| J::obj().set("ty", J::s(r.ty.name())).set("compressed", J::Bool(r.c)).set("value", r.v.to_json()))
                        .collect(),
                ),
            )
            .set("writer_script", J::Arr(self.wscript.iter().map(|a| a.to_json()).collect()))
            .set("storage_faults", J::Arr(self.sfaults.iter().map(|a| a.to_json()).collect()))
            .set(
                "reads",
                J::Arr(self.reads.iter().map(|r| J::obj().set("ty", J::s(r.ty.name())).set("compressed", J::Bool(r.c))).collect()),
            )
            .set("reader_script", J::Arr(self.rscript.iter().map(|a| a.to_json()).collect()))
    }
    pub fn from_json(j: &J) -> Result<IoPlan, String> {
        let mut p = IoPlan::default();
        p.stratum = j.get("stratum").and_then(|s| s.as_str()).unwrap_or("").to_string();
        for r in j.arr_of("records")? {
            let ty = Ty::parse(r.str_of("ty")?)?;
            p.records.push(Rec { ty, c: r.bool_of("compressed")?, v: VDesc::from_json(r.get("value").ok_or("value")?)? });
        }
        for a in j.arr_of("writer_script")? {
            p.wscript.push(Act::from_json(a)?);
        }
        for a in j.arr_of("storage_faults")? {
            p.sfaults.push(SFault::from_json(a)?);
        }
        for r in j.arr_of("reads")? {
            p.reads.push(ReadSpec { ty: Ty::parse(r.str_of("ty")?)?, c: r.bool_of("compressed")? });
        }
        for a in j.arr_of("reader_script")? {
            p.rscript.push(Act::from_json(a)?);
        }
        Ok(p)
    }
}

// ---------------------------------------------------------------- execution and oracle

#[derive(Clone, Debug)]
pub struct Violation {
    /// stable class name, e.g. "deserialize/3 invalid-input-must-fail"
    pub invariant: String,
    /// "serialize" | "deserialize" | "roundtrip" | "model"
    pub phase: &'static str,
    pub step: usize,
    pub ty: Ty,
    pub c: bool,
    pub expected: String,
    pub observed: String,
}
impl Violation {
    /// the class used by the minimiser: same invariant on the same operation kind
    pub fn class(&self) -> String {
        format!("{}|{}|{}", self.invariant, self.ty.name(), self.c).replace(' ', "_")
    }
    pub fn to_json(&self) -> J {
        J::obj()
            .set("invariant", J::s(&self.invariant))
            .set("phase", J::s(self.phase))
            .set("step", J::u(self.step))
            .set("type", J::s(self.ty.name()))
            .set("compressed", J::Bool(self.c))
            .set("expected", J::s(&self.expected))
            .set("observed", J::s(&self.observed))
    }
}

/// counters of what actually happened (fired, not configured) and reach probes
#[derive(Clone, Debug, Default)]
pub struct Counters {
    pub m: std::collections::BTreeMap<String, u64>,
}
impl Counters {
    pub fn inc(&mut self, k: &str) {
        *self.m.entry(k.to_string()).or_insert(0) += 1;
    }
    pub fn add(&mut self, k: &str, n: u64) {
        *self.m.entry(k.to_string()).or_insert(0) += n;
    }
    pub fn merge(&mut self, o: &Counters) {
        for (k, v) in &o.m {
            *self.m.entry(k.clone()).or_insert(0) += v;
        }
    }
    pub fn get(&self, k: &str) -> u64 {
        self.m.get(k).copied().unwrap_or(0)
    }
    pub fn to_json(&self) -> J {
        let mut o = J::obj();
        for (k, v) in &self.m {
            o.put(k, J::Int(*v as i64));
        }
        o
    }
}

pub struct RunResult {
    pub violation: Option<Violation>,
    pub digest: u64,
    pub steps: usize,
    pub faults_fired: usize,
    pub counters: Counters,
    pub log: Vec<String>,
}

fn errname(e: &io::Error) -> String {
    format!("{:?}", e.kind())
}

/// Execute one plan against the real library code. `want_log` additionally keeps a
/// human-readable event log (replay / samples); the digest is computed either way.
pub fn execute(plan: &IoPlan, want_log: bool) -> RunResult {
    let mut dg = Digest::new();
    let mut cnt = Counters::default();
    let mut log = vec![];
    let mut steps = 0usize;
    let mut faults = 0usize;
    macro_rules! done {
        ($v:expr) => {
            return RunResult { violation: $v, digest: dg.finish(), steps, faults_fired: faults, counters: cnt, log }
        };
    }

    // ---- materialise values
    let mut vals = vec![];
    for (i, r) in plan.records.iter().enumerate() {
        match r.v.materialize(r.ty) {
            Ok(v) => vals.push(v),
            Err(e) => {
                // a malformed plan is a harness problem, not a property verdict
                log.push(format!("plan error in record {}: {}", i, e));
                cnt.inc("plan_error");
                done!(None);
            }
        }
    }

    // ---- write phase
    let mut w = SimWriter::new(plan.wscript.clone());
    let mut written: Vec<(usize, usize, bool)> = vec![]; // (offset, accepted, ok)
    for (i, r) in plan.records.iter().enumerate() {
        steps += 1;
        let v = &vals[i];
        let e = match enc(v, r.c) {
            Ok(e) => e,
            Err(msg) => {
                let viol = Violation {
                    invariant: "serialize/0 reference-encoding".into(),
                    phase: "model",
                    step: i,
                    ty: r.ty,
                    c: r.c,
                    expected: "fault-free encoding of documented length made of canonical coefficients".into(),
                    observed: msg,
                };
                done!(Some(viol));
            }
        };
        if e.len() != r.ty.len(r.c) {
            let viol = Violation {
                invariant: "serialize/0 reference-encoding-length".into(),
                phase: "model",
                step: i,
                ty: r.ty,
                c: r.c,
                expected: format!("{} bytes", r.ty.len(r.c)),
                observed: format!("{} bytes", e.len()),
            };
            done!(Some(viol));
        }
        let start = w.data.len();
        w.op = OpStats::default();
        let res = catch_unwind(AssertUnwindSafe(|| lib_serialize(v, &mut w, r.c)));
        let accepted = w.data[start..].to_vec();
        let st = w.op.clone();
        faults += st.shorts + st.nonprogress();
        for k in &st.kinds {
            cnt.inc(&format!("w_fired_{}", k));
        }
        dg.str("W");
        dg.u64(i as u64);
        dg.bytes(&accepted);
        let mk = |inv: &str, exp: String, obs: String| Violation {
            invariant: inv.to_string(),
            phase: "serialize",
            step: i,
            ty: r.ty,
            c: r.c,
            expected: exp,
            observed: obs,
        };
        let res = match res {
            // the caller's writer panicked, not the library: for the caller this call failed
            Err(p) if p.is::<StreamPanic>() => Err(io::Error::new(ErrorKind::Other, "the caller's stream panicked")),
            Err(_) => {
                dg.str("panic");
                done!(Some(mk("serialize/1 no-panic", "no panic".into(), "serialize panicked".into())));
            }
            Ok(r) => r,
        };
        if want_log {
            log.push(format!(
                "serialize #{} {} c={} {} -> {} accepted={} calls={} [{}]",
                i,
                r.ty.name(),
                r.c,
                v.short(),
                match &res {
                    Ok(()) => "Ok".to_string(),
                    Err(e) => format!("Err({})", errname(e)),
                },
                accepted.len(),
                st.calls,
                st.kinds.join(",")
            ));
        }
        match &res {
            Ok(()) => {
                dg.str("ok");
                if accepted != e {
                    let inv = if accepted.len() != e.len() { "serialize/2 ok-implies-exact-length" } else { "serialize/2 ok-implies-exact-bytes" };
                    done!(Some(mk(inv, format!("{} bytes {}", e.len(), hex(&e)), format!("{} bytes {}", accepted.len(), hex(&accepted)))));
                }
                cnt.inc("serialize_ok");
                if st.eintrs > 0 {
                    cnt.inc("probe_w_interrupted_retried_transparently");
                }
            }
            Err(err) => {
                dg.str("err");
                cnt.inc("serialize_err");
                if st.error_sources() == 0 {
                    done!(Some(mk(
                        "serialize/4 no-spurious-failure",
                        "Ok(()) on a stream that only delivered full or short writes".into(),
                        format!("Err({})", errname(err))
                    )));
                }
                if st.zeros + st.fails == 0 && err.kind() != ErrorKind::Interrupted {
                    done!(Some(mk(
                        "serialize/4b interrupted-write-is-retried-or-reported-as-interrupted",
                        format!("Ok(()) or Err(Interrupted): the writer accepted every byte offered, with {} EINTR", st.eintrs),
                        format!("Err({})", errname(err))
                    )));
                }
                if !(accepted.len() <= e.len() && accepted[..] == e[..accepted.len()]) {
                    done!(Some(mk(
                        "serialize/3 failed-write-leaves-prefix",
                        format!("a prefix of {}", hex(&e)),
                        format!("{} bytes {}", accepted.len(), hex(&accepted))
                    )));
                }
                if err.kind() == ErrorKind::WriteZero {
                    cnt.inc("probe_write_zero");
                }
                if r.ty == Ty::Fr && accepted.len() > 0 && accepted.len() < 32 {
                    cnt.inc(&format!("probe_torn_fr_at_{}", accepted.len() / 8 * 8));
                }
                if accepted.len() > 0 && accepted.len() < e.len() {
                    cnt.inc("probe_torn_record");
                }
            }
        }
        if let Some(e) = w.nested_fault.take() {
            done!(Some(mk("serialize/6 library-usable-from-inside-the-callers-writer", "a nested round trip on plain vectors behaves as usual".into(), e)));
        }
        // progress (bounded liveness): every call either moves >= 1 byte or consumes a fault
        if st.calls > e.len() + st.nonprogress() + 1 {
            done!(Some(mk(
                "serialize/5 progress",
                format!("at most {} write calls", e.len() + st.nonprogress() + 1),
                format!("{} write calls", st.calls)
            )));
        }
        written.push((start, accepted.len(), res.is_ok()));
    }
    let all_written_ok = written.iter().all(|x| x.2);

    // ---- storage faults
    let mut data = w.data.clone();
    let mut storage_changed = false;
    for f in &plan.sfaults {
        if f.apply(&mut data) {
            storage_changed = true;
            faults += 1;
            cnt.inc(&format!("s_fired_{}", f.label()));
        } else {
            cnt.inc("s_noop");
        }
    }
    dg.str("S");
    dg.bytes(&data);

    // ---- read phase
    let mut rd = SimReader::new(&data, plan.rscript.clone());
    for (i, spec) in plan.reads.iter().enumerate() {
        steps += 1;
        let p = rd.pos;
        let avail = &data[p..];
        let expect = dec(spec.ty, avail, spec.c);
        rd.op = OpStats::default();
        let res = catch_unwind(AssertUnwindSafe(|| lib_deserialize(spec.ty, &mut rd, spec.c)));
        let st = rd.op.clone();
        let consumed = rd.pos - p;
        faults += st.shorts + st.eintrs + st.fails;
        for k in &st.kinds {
            cnt.inc(&format!("r_fired_{}", k));
        }
        dg.str("R");
        dg.u64(i as u64);
        dg.u64(consumed as u64);
        let need = spec.ty.len(spec.c);
        let mk = |inv: &str, exp: String, obs: String| Violation {
            invariant: inv.to_string(),
            phase: "deserialize",
            step: i,
            ty: spec.ty,
            c: spec.c,
            expected: exp,
            observed: obs,
        };
        let res = match res {
            Err(p) if p.is::<StreamPanic>() => Err(io::Error::new(ErrorKind::Other, "the caller's stream panicked")),
            Err(_) => {
                dg.str("panic");
                done!(Some(mk(
                    "deserialize/1 no-panic",
                    "no panic".into(),
                    format!("deserialize panicked at offset {} on {}", p, hex(&avail[..avail.len().min(need)]))
                )));
            }
            Ok(r) => r,
        };
        if want_log {
            log.push(format!(
                "deserialize #{} {} c={} at {} (avail {}) expect {} -> {} consumed={} calls={} [{}]",
                i,
                spec.ty.name(),
                spec.c,
                p,
                avail.len(),
                match &expect {
                    Expect::Truncated => "Truncated".to_string(),
                    Expect::Invalid(w) => format!("Invalid({})", w),
                    Expect::Ok(v) => format!("Ok({})", v.short()),
                },
                match &res {
                    Ok(v) => format!("Ok({})", v.short()),
                    Err(e) => format!("Err({})", errname(e)),
                },
                consumed,
                st.calls,
                st.kinds.join(",")
            ));
        }
        match (&res, &expect) {
            (Ok(v), Expect::Ok(wv)) => {
                dg.str("ok");
                let ev = enc(v, spec.c).unwrap_or_default();
                dg.bytes(&ev);
                if !v.same(wv) {
                    done!(Some(mk(
                        "deserialize/2 never-wrong-data",
                        format!("{} from bytes {}", wv.short(), hex(&avail[..need])),
                        v.short()
                    )));
                }
                if consumed != need {
                    done!(Some(mk(
                        "deserialize/2 exact-consumption-on-success",
                        format!("{} bytes consumed", need),
                        format!("{} bytes consumed", consumed)
                    )));
                }
                cnt.inc("deserialize_ok");
                if st.eintrs > 0 {
                    cnt.inc("probe_r_interrupted_retried_transparently");
                }
                if p != 0 && !written.iter().any(|wr| wr.0 == p) {
                    cnt.inc("probe_misaligned_read_decoded");
                }
                if storage_changed {
                    cnt.inc("probe_decoded_after_storage_fault");
                }
                // canonicity of accepted bytes is C05's business: probe only
                if spec.ty.is_point() && ev[..] != avail[..need] {
                    cnt.inc("probe_noncanonical_accepted");
                }
            }
            (Ok(v), Expect::Truncated) => {
                dg.str("ok!");
                done!(Some(mk(
                    "deserialize/3 truncated-input-must-fail",
                    format!("an error: only {} of {} bytes available", avail.len(), need),
                    format!("Ok({})", v.short())
                )));
            }
            (Ok(v), Expect::Invalid(why)) => {
                dg.str("ok!");
                done!(Some(mk(
                    "deserialize/3 invalid-input-must-fail",
                    format!("an error ({}) for bytes {}", why, hex(&avail[..avail.len().min(need)])),
                    format!("Ok({})", v.short())
                )));
            }
            (Err(e), Expect::Ok(wv)) => {
                dg.str("err");
                cnt.inc("deserialize_err");
                if st.eintrs + st.fails == 0 {
                    done!(Some(mk(
                        "deserialize/4 valid-record-must-be-read",
                        format!("Ok({}) on a stream that only delivered full or short reads", wv.short()),
                        format!("Err({}: {})", errname(e), e)
                    )));
                }
                // EINTR is the only injected fault: the library may retry (read_exact does) or hand the
                // interruption back, but any other error says it misread a complete, valid record
                if st.fails == 0 && e.kind() != ErrorKind::Interrupted {
                    done!(Some(mk(
                        "deserialize/4b interrupted-read-is-retried-or-reported-as-interrupted",
                        format!("Ok({}) or Err(Interrupted): the stream delivered the whole valid record, with {} EINTR", wv.short(), st.eintrs),
                        format!("Err({}: {}) after consuming {} of {} bytes", errname(e), e, consumed, need)
                    )));
                }
                cnt.inc("probe_valid_record_lost_to_injected_error");
            }
            (Err(e), Expect::Truncated) => {
                dg.str("err");
                cnt.inc("deserialize_err");
                cnt.inc("probe_truncated_rejected");
                if e.kind() == ErrorKind::UnexpectedEof {
                    let csz = spec.ty.len(true);
                    if spec.ty.is_point() && !spec.c && avail.len() >= csz {
                        cnt.inc("probe_eof_in_second_read");
                    } else {
                        cnt.inc("probe_eof_in_first_read");
                    }
                }
            }
            (Err(_), Expect::Invalid(why)) => {
                dg.str("err");
                cnt.inc("deserialize_err");
                cnt.inc(&format!("probe_rejected_{}", why));
            }
        }
        if let Some(e) = rd.nested_fault.take() {
            done!(Some(mk("deserialize/8 library-usable-from-inside-the-callers-reader", "a nested round trip on plain vectors behaves as usual".into(), e)));
        }
        // progress / bounded liveness after faults stop
        let bound = need + st.eintrs + st.fails + st.eofs + 1;
        if st.calls > bound {
            done!(Some(mk("deserialize/6 progress", format!("at most {} read calls", bound), format!("{} read calls", st.calls))));
        }
        if st.max_request > need {
            // asking for more than one record can over-consume on success; success is
            // checked above, so this is only a probe
            cnt.inc("probe_request_larger_than_record");
        }
        // round trip: value i written intact and read back under the same flag
        if i < plan.records.len() && all_written_ok && !storage_changed {
            let r = &plan.records[i];
            let aligned = written.get(i).map(|x| x.0 == p).unwrap_or(false);
            if aligned && r.c == spec.c && (r.ty == spec.ty || r.ty.sibling() == Some(spec.ty)) {
                if let Ok(v) = &res {
                    let same = if r.ty == spec.ty { v.same(&vals[i]) } else { v.same_point(&vals[i]) };
                    if !same {
                        let viol = Violation {
                            invariant: "roundtrip/7 read-back-equals-written".into(),
                            phase: "roundtrip",
                            step: i,
                            ty: spec.ty,
                            c: spec.c,
                            expected: vals[i].short(),
                            observed: v.short(),
                        };
                        done!(Some(viol));
                    }
                    cnt.inc(if r.ty == spec.ty { "roundtrip_ok" } else { "roundtrip_wire_compatible_ok" });
                } else if st.eintrs + st.fails == 0 {
                    let viol = Violation {
                        invariant: "roundtrip/7 written-value-must-read-back".into(),
                        phase: "roundtrip",
                        step: i,
                        ty: spec.ty,
                        c: spec.c,
                        expected: vals[i].short(),
                        observed: "Err".into(),
                    };
                    done!(Some(viol));
                }
            }
        }
    }
    done!(None);
}
