//! Fixed value pools for Engine B/C (independent of VERIF_SEED, so a replay file needs no
//! seed): points, structured scalars, field elements, messages, encoded byte strings.

use crate::io_gen;
use crate::model::fr_from_rng;
use crate::util::Rng;
use ff_zeroize::{Field, PrimeField};
use pairing_plus::bls12_381::{transmute, Fq, Fq12, Fq2, Fq6, FqRepr, Fr, FrRepr, G1Affine, G1Compressed, G2Affine, G2Compressed, G1, G2};
use pairing_plus::{CurveAffine, CurveProjective, EncodedPoint};
use std::sync::OnceLock;

#[derive(Clone, Debug)]
pub struct Scalar {
    pub l: [u64; 4],
    pub name: String,
    /// below 2^255 (the wNAF domain)
    pub lt255: bool,
}

pub struct SPools {
    pub g1: Vec<G1Affine>,
    pub g1p: Vec<G1>,
    pub g1_nsub: usize,
    pub g2: Vec<G2Affine>,
    pub g2p: Vec<G2>,
    pub g2_nsub: usize,
    pub scalars: Vec<Scalar>,
    /// indices into `scalars` of scalars with at most 6 bits (cheap under Miri)
    pub tiny: Vec<usize>,
    pub fq: Vec<Fq>,
    pub fr: Vec<Fr>,
    pub fq2: Vec<Fq2>,
    pub fq6: Vec<Fq6>,
    pub fq12: Vec<Fq12>,
    pub msgs: Vec<Vec<u8>>,
    pub dsts: Vec<Vec<u8>>,
    /// encoded G1 byte strings: (bytes, compressed?) — valid and invalid
    pub enc_g1: Vec<(Vec<u8>, bool)>,
    pub enc_g2: Vec<(Vec<u8>, bool)>,
}

fn fq_rng(r: &mut Rng) -> Fq {
    loop {
        let mut l = [0u64; 6];
        for x in l.iter_mut() {
            *x = r.next();
        }
        l[5] &= 0x1fff_ffff_ffff_ffff;
        if let Ok(f) = Fq::from_repr(FqRepr(l)) {
            return f;
        }
    }
}
fn fq2_rng(r: &mut Rng) -> Fq2 {
    Fq2 { c0: fq_rng(r), c1: fq_rng(r) }
}
fn fq6_rng(r: &mut Rng) -> Fq6 {
    Fq6 { c0: fq2_rng(r), c1: fq2_rng(r), c2: fq2_rng(r) }
}

pub const R: [u64; 4] = [0xffff_ffff_0000_0001, 0x53bd_a402_fffe_5bfe, 0x3339_d808_09a1_d805, 0x73ed_a753_299d_7d48];

fn add_small(a: [u64; 4], k: u64) -> [u64; 4] {
    let mut o = a;
    let mut c = k;
    for x in o.iter_mut() {
        let (v, ov) = x.overflowing_add(c);
        *x = v;
        c = ov as u64;
    }
    o
}
fn add4(a: [u64; 4], b: [u64; 4]) -> ([u64; 4], bool) {
    let mut o = [0u64; 4];
    let mut c = 0u64;
    for i in 0..4 {
        let (v, o1) = a[i].overflowing_add(b[i]);
        let (v2, o2) = v.overflowing_add(c);
        o[i] = v2;
        c = (o1 as u64) + (o2 as u64);
    }
    (o, c != 0)
}
fn sub_small(a: [u64; 4], k: u64) -> [u64; 4] {
    let mut o = a;
    let mut b = k;
    for x in o.iter_mut() {
        let (v, ov) = x.overflowing_sub(b);
        *x = v;
        b = ov as u64;
    }
    o
}
fn bit(i: usize) -> [u64; 4] {
    let mut o = [0u64; 4];
    o[i / 64] = 1 << (i % 64);
    o
}
fn bits(v: &[usize]) -> [u64; 4] {
    let mut o = [0u64; 4];
    for &i in v {
        o[i / 64] |= 1 << (i % 64);
    }
    o
}

fn scalars() -> Vec<Scalar> {
    let mut v: Vec<Scalar> = vec![];
    let mut push = |l: [u64; 4], name: &str| {
        v.push(Scalar { l, name: name.to_string(), lt255: l[3] >> 63 == 0 });
    };
    push([0, 0, 0, 0], "0");
    push([1, 0, 0, 0], "1");
    push([2, 0, 0, 0], "2");
    push([3, 0, 0, 0], "3");
    push([5, 0, 0, 0], "5");
    push([0x2b, 0, 0, 0], "0x2b");
    push(sub_small(R, 1), "r-1");
    push(R, "r");
    push(add_small(R, 1), "r+1");
    push([u64::MAX, u64::MAX, u64::MAX, u64::MAX >> 1], "2^255-1");
    for i in [31usize, 32, 63, 64, 95, 96, 127, 128, 159, 160, 191, 192, 223, 224, 254] {
        push(bit(i), &format!("bit{}", i));
    }
    // just above a 64-bit limb boundary, and sparse scalars with gaps of more than 64 zero bits
    for i in [65usize, 66, 68, 129, 130, 194] {
        push(bit(i), &format!("bit{}", i));
    }
    push(bits(&[0, 66]), "bits0+66");
    push(bits(&[0, 1, 67]), "bits0+1+67");
    push(bits(&[0, 67, 133, 200]), "bits0+67+133+200");
    push(bits(&[2, 70, 139, 209]), "bits2+70+139+209");
    // a power of two minus a small odd number: every low digit is negative and larger in magnitude
    // than any positive digit (the top digit is +1)
    push(sub_small(bit(40), 5), "2^40-5");
    push(sub_small(bit(100), 7), "2^100-7");
    push(sub_small(bits(&[200, 120]), 13), "2^200+2^120-13");
    push(sub_small(bit(254), 3), "2^254-3");
    for (a, b) in [(63usize, 64usize), (127, 128), (191, 192), (31, 32), (95, 96), (159, 160), (223, 224)] {
        push(bits(&[a, b]), &format!("bits{}+{}", a, b));
    }
    push(bits(&[0, 64, 128, 192]), "bits0+64+128+192");
    push(bits(&[63, 127, 191, 254]), "bits63+127+191+254");
    push(bits(&[0, 32, 64, 96, 128, 160, 192, 224]), "every32");
    push(bits(&[31, 63, 95, 127, 159, 191, 223]), "every32top");
    push([0xffff, 0, 0, 0], "0xffff");
    push([0x1_0001, 0, 0, 0], "0x10001");
    push([u64::MAX, 0, 0, 0], "2^64-1");
    push([u64::MAX, u64::MAX, 0, 0], "2^128-1");
    push([0, 0, 0, 1], "2^192");
    push([0xaaaa_aaaa_aaaa_aaaa, 0xaaaa_aaaa_aaaa_aaaa, 0xaaaa_aaaa_aaaa_aaaa, 0x2aaa_aaaa_aaaa_aaaa], "0xaa..");
    push([0x5555_5555_5555_5555, 0x5555_5555_5555_5555, 0x5555_5555_5555_5555, 0x5555_5555_5555_5555], "0x55..");
    let mut rng = Rng::new(0x5ca1_a25);
    for i in 0..8 {
        let f = fr_from_rng(&mut rng);
        push(f.into_repr().0, &format!("rand{}", i));
    }
    for i in 0..3 {
        // >= r but below 2^255
        let mut l = [rng.next(), rng.next(), rng.next(), rng.next()];
        l[3] = 0x7400_0000_0000_0000 | (l[3] & 0x03ff_ffff_ffff_ffff);
        push(l, &format!("rand_ge_r{}", i));
    }
    // scalars >= r that make an addition inside a double-and-add loop hit its equal-operands
    // (doubling) or opposite-operands (identity) branch: [r+2]P ends with P + P, and so on
    push(add_small(R, 2), "r+2");
    push(add_small(R, 3), "r+3");
    // canonical scalars whose last wNAF step adds a table entry equal to the accumulator:
    // k = r + 2d for a negative odd digit d (the accumulator is [r + d]P = [d]P, the digit adds [d]P)
    for d in [2u64, 6, 10, 14, 30, 62, 3, 4, 5] {
        push(sub_small(R, d), &format!("r-{}", d));
    }
    // 256-bit scalars (plain and table-driven paths only)
    let (r2, _) = add4(R, R);
    push(sub_small(r2, 1), "2r-1");
    push(r2, "2r");
    push(add_small(r2, 1), "2r+1");
    push(add_small(r2, 2), "2r+2");
    // last-step collisions of the table-driven paths: the accumulator 2A equals the table entry
    // C(b) selected by the scalar's own lowest column, i.e. k = 2*C(b) + m*r with column(k) = b
    for (name, stride, ncols) in [("tbl256", 32usize, 8usize), ("tbl3", 64usize, 4usize)] {
        for b in 1usize..(1 << ncols) {
            let mut c = [0u64; 4];
            for j in 0..ncols {
                if (b >> j) & 1 == 1 {
                    let bit = j * stride;
                    c[bit / 64] |= 1 << (bit % 64);
                }
            }
            let (c2, o1) = add4(c, c);
            if o1 {
                continue;
            }
            let mut k = c2;
            for m in 0..3 {
                if m > 0 {
                    let (nk, o) = add4(k, R);
                    if o {
                        break;
                    }
                    k = nk;
                }
                let mut col = 0usize;
                for j in 0..ncols {
                    let bit = j * stride;
                    col |= (((k[bit / 64] >> (bit % 64)) & 1) as usize) << j;
                }
                if col == b && m > 0 {
                    push(k, &format!("{}_collision_b{}_m{}", name, b, m));
                }
            }
        }
    }
    // around the eigenvalues of the curve endomorphisms (phi on G1: z^2 - 1; psi on G2: z) and their
    // negatives: an accumulator [m]P meets a table entry [j]P with m = lambda*j there, i.e. the two operands
    // of an addition have equal or opposite y and different x
    push([0xd20100000000fffe, 0x0000000000000000, 0x0000000000000000, 0x0000000000000000], "z-2");
    push([0xd20100000000ffff, 0x0000000000000000, 0x0000000000000000, 0x0000000000000000], "z-1");
    push([0xd201000000010000, 0x0000000000000000, 0x0000000000000000, 0x0000000000000000], "z+0");
    push([0xd201000000010001, 0x0000000000000000, 0x0000000000000000, 0x0000000000000000], "z+1");
    push([0xd201000000010002, 0x0000000000000000, 0x0000000000000000, 0x0000000000000000], "z+2");
    push([0x2dfefffefffeffff, 0x53bda402fffe5bfe, 0x3339d80809a1d805, 0x73eda753299d7d48], "r-z-2");
    push([0x2dfefffeffff0000, 0x53bda402fffe5bfe, 0x3339d80809a1d805, 0x73eda753299d7d48], "r-z-1");
    push([0x2dfefffeffff0001, 0x53bda402fffe5bfe, 0x3339d80809a1d805, 0x73eda753299d7d48], "r-z+0");
    push([0x2dfefffeffff0002, 0x53bda402fffe5bfe, 0x3339d80809a1d805, 0x73eda753299d7d48], "r-z+1");
    push([0x2dfefffeffff0003, 0x53bda402fffe5bfe, 0x3339d80809a1d805, 0x73eda753299d7d48], "r-z+2");
    push([0x00000000fffffffe, 0xac45a4010001a402, 0x0000000000000000, 0x0000000000000000], "z^2-2");
    push([0x00000000ffffffff, 0xac45a4010001a402, 0x0000000000000000, 0x0000000000000000], "z^2-1");
    push([0x0000000100000000, 0xac45a4010001a402, 0x0000000000000000, 0x0000000000000000], "z^2+0");
    push([0x0000000100000001, 0xac45a4010001a402, 0x0000000000000000, 0x0000000000000000], "z^2+1");
    push([0x0000000100000002, 0xac45a4010001a402, 0x0000000000000000, 0x0000000000000000], "z^2+2");
    push([0xfffffffdffffffff, 0xa7780001fffcb7fc, 0x3339d80809a1d804, 0x73eda753299d7d48], "r-z^2-2");
    push([0xfffffffe00000000, 0xa7780001fffcb7fc, 0x3339d80809a1d804, 0x73eda753299d7d48], "r-z^2-1");
    push([0xfffffffe00000001, 0xa7780001fffcb7fc, 0x3339d80809a1d804, 0x73eda753299d7d48], "r-z^2+0");
    push([0xfffffffe00000002, 0xa7780001fffcb7fc, 0x3339d80809a1d804, 0x73eda753299d7d48], "r-z^2+1");
    push([0xfffffffe00000003, 0xa7780001fffcb7fc, 0x3339d80809a1d804, 0x73eda753299d7d48], "r-z^2+2");
    push([0x0000002000000027, 0x88b4802000348040, 0x0000000000000015, 0x0000000000000000], "(z^2+1)*32+7");
    push([0x0001000000000000, 0xec03000276030000, 0x8d51ccce760304d0, 0x0000000000000000], "z^3");
    push([0xfffeffff00000001, 0x67baa40089fb5bfe, 0xa5e80b39939ed334, 0x73eda753299d7d47], "r-z^3");
    // extreme digits of every window: 2^w - 1 (digit 2^w - 1, the last table slot), 2^w + 1 (digit
    // -(2^w - 1)), 2^w - 3 (the slot before the last)
    for w in 2usize..=22 {
        push(sub_small(bit(w), 1), &format!("ext{}_0", w));
        push(add_small(bit(w), 1), &format!("ext{}_1", w));
        push(sub_small(bit(w), 3), &format!("ext{}_2", w));
    }
    push(bit(255), "bit255");
    push([u64::MAX; 4], "2^256-1");
    push(bits(&[255, 254, 0]), "bits255+254+0");
    push([rng.next(), rng.next(), rng.next(), rng.next() | (1 << 63)], "rand256");
    drop(push);
    N_HAND.store(v.len(), std::sync::atomic::Ordering::Relaxed);
    // ---- generated structured scalars (fixed PRNG, independent of VERIF_SEED so that pool indices are
    // stable): the shapes that exceptional cases of recoders, window tables and addition formulas depend
    // on, at positions nobody picked by hand
    let mut g = Rng::new(0x7363_616c_6172_73);
    let mut pushg = |l: [u64; 4], name: String| {
        v.push(Scalar { l, name, lt255: l[3] >> 63 == 0 });
    };
    let sub4 = |a: [u64; 4], b: [u64; 4]| -> [u64; 4] {
        let mut o = [0u64; 4];
        let mut br = 0u64;
        for i in 0..4 {
            let (x, b1) = a[i].overflowing_sub(b[i]);
            let (y, b2) = x.overflowing_sub(br);
            o[i] = y;
            br = (b1 as u64) + (b2 as u64);
        }
        o
    };
    for i in 0..GEN_SCALARS {
        let small = 1 + 2 * (g.next() % 16); // odd, < 32
        let l = match i % 8 {
            0 => {
                // 2^a - c
                let a = 6 + (g.next() % 250) as usize;
                (sub_small(bit(a), small), format!("gen:2^{}-{}", a, small))
            }
            1 => {
                // 2^a + c
                let a = 6 + (g.next() % 249) as usize;
                (add_small(bit(a), small), format!("gen:2^{}+{}", a, small))
            }
            2 => {
                // m*r +- c, enumerated: every c below 20 for m = 1, 2 and both signs
                let j = (i / 8) as u64;
                let (m, minus, c) = (1 + j % 2, (j / 2) % 2 == 0, j / 4);
                let base = if m == 1 { R } else { add4(R, R).0 };
                if minus {
                    (sub_small(base, c), format!("gen:{}r-{}", m, c))
                } else {
                    (add_small(base, c), format!("gen:{}r+{}", m, c))
                }
            }
            3 => {
                // 2 to 4 set bits anywhere below bit 255
                let n = 2 + (g.next() % 3) as usize;
                let pos: Vec<usize> = (0..n).map(|_| (g.next() % 255) as usize).collect();
                (bits(&pos), format!("gen:bits{:?}", pos))
            }
            4 => {
                // NAF-sparse: sum of +-d * 2^p, top term positive
                let n = 2 + (g.next() % 4) as usize;
                let mut pos: Vec<usize> = (0..n).map(|_| (g.next() % 250) as usize).collect();
                pos.sort();
                pos.dedup();
                let mut acc = [0u64; 4];
                let mut name = String::from("gen:naf");
                for (j, &p) in pos.iter().enumerate().rev() {
                    let d = 1 + 2 * (g.next() % 8);
                    let mut term = [0u64; 4];
                    term[p / 64] = d << (p % 64);
                    if p % 64 > 59 && p / 64 < 3 {
                        term[p / 64 + 1] = d >> (64 - p % 64);
                    }
                    let neg = j + 1 != pos.len() && g.next() % 2 == 0;
                    if neg && gt4(&acc, &term) {
                        acc = sub4(acc, term);
                        name.push_str(&format!("-{}*2^{}", d, p));
                    } else {
                        acc = add4(acc, term).0;
                        name.push_str(&format!("+{}*2^{}", d, p));
                    }
                }
                acc[3] &= u64::MAX >> 1;
                (acc, name)
            }
            5 => {
                // a run of ones from bit a to bit b
                let a = (g.next() % 200) as usize;
                let b = a + 1 + (g.next() % (254 - a as u64)) as usize;
                (sub4(bit(b), bit(a)), format!("gen:ones[{}..{})", a, b))
            }
            6 => {
                // limb patterns
                let mut l = [0u64; 4];
                let mut name = String::from("gen:limbs");
                for x in l.iter_mut() {
                    let (v, n) = match g.next() % 6 {
                        0 => (0, "0"),
                        1 => (1, "1"),
                        2 => (u64::MAX, "F"),
                        3 => (1u64 << 63, "8"),
                        4 => (u64::MAX >> 1, "7"),
                        _ => (g.next(), "x"),
                    };
                    *x = v;
                    name.push_str(n);
                }
                l[3] &= u64::MAX >> 1;
                (l, name)
            }
            _ => {
                // a short random scalar (1..=4 limbs, random bit length)
                let nb = 1 + (g.next() % 255) as usize;
                let mut l = [g.next(), g.next(), g.next(), g.next()];
                for b in nb..256 {
                    l[b / 64] &= !(1u64 << (b % 64));
                }
                l[(nb - 1) / 64] |= 1u64 << ((nb - 1) % 64);
                (l, format!("gen:rand{}bits", nb))
            }
        };
        pushg(l.0, l.1);
    }
    v
}

/// pool index of the extreme-digit scalar `j` (0: 2^w - 1, 1: 2^w + 1, 2: 2^w - 3) of window `w`
pub fn ext_index(w: usize, j: usize) -> usize {
    static M: OnceLock<Vec<usize>> = OnceLock::new();
    let m = M.get_or_init(|| {
        let sc = &spools().scalars;
        let mut v = vec![0usize; 23 * 3];
        for w in 2usize..=22 {
            for j in 0..3 {
                let name = format!("ext{}_{}", w, j);
                v[w * 3 + j] = sc.iter().position(|s| s.name == name).expect("ext scalar in pool");
            }
        }
        v
    });
    m[w.clamp(2, 22) * 3 + j % 3]
}

/// number of generated structured scalars appended to the hand-made pool
pub const GEN_SCALARS: usize = 640;
static N_HAND: std::sync::atomic::AtomicUsize = std::sync::atomic::AtomicUsize::new(0);
/// number of hand-made scalars at the head of the pool (the generated ones follow)
pub fn n_hand() -> usize {
    let _ = spools();
    N_HAND.load(std::sync::atomic::Ordering::Relaxed)
}
fn gt4(a: &[u64; 4], b: &[u64; 4]) -> bool {
    for i in (0..4).rev() {
        if a[i] != b[i] {
            return a[i] > b[i];
        }
    }
    false
}

pub fn spools() -> &'static SPools {
    static P: OnceLock<SPools> = OnceLock::new();
    P.get_or_init(|| {
        let mut rng = Rng::new(0x7370_6f6f_6c);
        let sc = scalars();
        let tiny: Vec<usize> = sc.iter().enumerate().filter(|(_, s)| s.l[1] == 0 && s.l[2] == 0 && s.l[3] == 0 && s.l[0] < 64).map(|(i, _)| i).collect();

        if cfg!(miri) || std::env::var_os("PP_SIM_CHEAP_POOLS").is_some() {
            return cheap_pools(sc, tiny);
        }
        // G1 points
        let a_list: Vec<[u64; 4]> = vec![
            [0, 0, 0, 0],
            [1, 0, 0, 0],
            [2, 0, 0, 0],
            [0x1234_5678_9abc_def1, 0x0fed_cba9_8765_4321, 0, 0],
            fr_from_rng(&mut rng).into_repr().0,
            sub_small(R, 1),
        ];
        let mut g1 = vec![];
        let mut g1p = vec![];
        for a in &a_list {
            let mut p = G1::one();
            p.mul_assign(FrRepr(*a));
            g1.push(p.into_affine());
        }
        // the same subgroup points again, to be given projective forms with a Z of special shape
        let mut m1 = Fq::one();
        m1.negate();
        let mut two = Fq::one();
        two.double();
        let mut m2 = two;
        m2.negate();
        let g1_special: Vec<(usize, Fq)> = vec![(1, m1), (4, two), (5, m2)];
        let g1_special_at = g1.len();
        for (src, _) in &g1_special {
            let q = g1[*src];
            g1.push(q);
        }
        let g1_nsub = g1.len();
        for (c, _) in io_gen::pools().g1_nonsub.iter().take(2) {
            let mut e = G1Compressed::empty();
            e.as_mut().copy_from_slice(c);
            g1.push(e.into_affine_unchecked().expect("crafted point decodes unchecked"));
        }
        for (i, p) in g1.iter().enumerate() {
            if p.is_zero() {
                g1p.push(G1::zero());
            } else if i % 2 == 1 && !(i >= g1_special_at && i < g1_special_at + g1_special.len()) {
                g1p.push(p.into_projective());
            } else {
                let z = if i >= g1_special_at && i < g1_special_at + g1_special.len() { g1_special[i - g1_special_at].1 } else { fq_rng(&mut rng) };
                let mut z2 = z;
                z2.square();
                let mut z3 = z2;
                z3.mul_assign(&z);
                let (x, y) = p.as_tuple();
                let mut xx = *x;
                xx.mul_assign(&z2);
                let mut yy = *y;
                yy.mul_assign(&z3);
                g1p.push(unsafe { transmute::g1_projective(xx, yy, z) });
            }
        }
        let mut g2 = vec![];
        let mut g2p = vec![];
        for a in &a_list {
            let mut p = G2::one();
            p.mul_assign(FrRepr(*a));
            g2.push(p.into_affine());
        }
        let zr = fq2_rng(&mut rng);
        let g2_special: Vec<(usize, Fq2)> = vec![
            (1, Fq2 { c0: Fq::zero(), c1: Fq::one() }),
            (4, Fq2 { c0: Fq::zero(), c1: zr.c1 }),
            (5, Fq2 { c0: zr.c0, c1: Fq::zero() }),
            (2, Fq2 { c0: m1, c1: Fq::zero() }),
        ];
        let g2_special_at = g2.len();
        for (src, _) in &g2_special {
            let q = g2[*src];
            g2.push(q);
        }
        let g2_nsub = g2.len();
        for (c, _) in io_gen::pools().g2_nonsub.iter().take(2) {
            let mut e = G2Compressed::empty();
            e.as_mut().copy_from_slice(c);
            g2.push(e.into_affine_unchecked().expect("crafted point decodes unchecked"));
        }
        for (i, p) in g2.iter().enumerate() {
            if p.is_zero() {
                g2p.push(G2::zero());
            } else if i % 2 == 1 && !(i >= g2_special_at && i < g2_special_at + g2_special.len()) {
                g2p.push(p.into_projective());
            } else {
                let z = if i >= g2_special_at && i < g2_special_at + g2_special.len() { g2_special[i - g2_special_at].1 } else { fq2_rng(&mut rng) };
                let mut z2 = z;
                z2.square();
                let mut z3 = z2;
                z3.mul_assign(&z);
                let (x, y) = p.as_tuple();
                let mut xx = *x;
                xx.mul_assign(&z2);
                let mut yy = *y;
                yy.mul_assign(&z3);
                g2p.push(unsafe { transmute::g2_projective(xx, yy, z) });
            }
        }

        let mut fq = vec![Fq::zero(), Fq::one()];
        let mut m1 = Fq::one();
        m1.negate();
        fq.push(m1);
        for _ in 0..5 {
            fq.push(fq_rng(&mut rng));
        }
        let mut fr = vec![Fr::zero(), Fr::one()];
        let mut m1 = Fr::one();
        m1.negate();
        fr.push(m1);
        for _ in 0..5 {
            fr.push(fr_from_rng(&mut rng));
        }
        let mut fq2 = vec![Fq2::zero(), Fq2::one()];
        for _ in 0..6 {
            fq2.push(fq2_rng(&mut rng));
        }
        let mut fq6 = vec![Fq6::zero(), Fq6::one()];
        for _ in 0..4 {
            fq6.push(fq6_rng(&mut rng));
        }
        let mut fq12 = vec![Fq12::zero(), Fq12::one()];
        for _ in 0..4 {
            fq12.push(Fq12 { c0: fq6_rng(&mut rng), c1: fq6_rng(&mut rng) });
        }
        let msgs: Vec<Vec<u8>> = vec![
            vec![],
            b"abc".to_vec(),
            b"abcdef0123456789".to_vec(),
            vec![0x61; 133],
            (0..=255u8).collect(),
            b"q128_qqqqqqqqqqqqqqqqqqqqqqqqqqqqqqqqqqqqqqqqqqqqqqqqqqqqqqqqqqqqqqqqqqqqqqqqqqqqqqqqqqqqqqqqqqqqqqqqqqqqqqqqqqqqqqqqqqqqqqqqqqqqqqqqqqqq".to_vec(),
            // long messages: several hash blocks, and more than 2^16 bytes
            (0..1000u32).map(|i| (i * 31 + 7) as u8).collect(),
            (0..70_001u32).map(|i| (i * 17 + 3) as u8).collect(),
        ];
        let dsts: Vec<Vec<u8>> = vec![
            b"QUUX-V01-CS02-with-BLS12381G1_XMD:SHA-256_SSWU_RO_".to_vec(),
            b"QUUX-V01-CS02-with-BLS12381G2_XMD:SHA-256_SSWU_RO_".to_vec(),
            b"x".to_vec(),
            vec![0x44; 255],
            // longer than 255 bytes (the XMD length byte): two different tags of the same length
            (0..300u32).map(|i| (i * 7 + 1) as u8).collect(),
            (0..300u32).map(|i| (i * 13 + 5) as u8).collect(),
        ];
        // encodings: valid, then a few invalid ones (flipped bit, wrong flag, non-subgroup)
        let mut enc_g1: Vec<(Vec<u8>, bool)> = vec![];
        for p in g1.iter().take(g1_nsub) {
            enc_g1.push((p.into_compressed().as_ref().to_vec(), true));
            enc_g1.push((p.into_uncompressed().as_ref().to_vec(), false));
        }
        let mut bad = g1[3].into_compressed().as_ref().to_vec();
        bad[47] ^= 1;
        enc_g1.push((bad, true));
        let mut bad = g1[3].into_uncompressed().as_ref().to_vec();
        bad[95] ^= 1;
        enc_g1.push((bad, false));
        enc_g1.push((io_gen::pools().g1_nonsub[0].0.clone(), true));
        enc_g1.push((io_gen::pools().g1_nonsub[0].1.clone(), false));
        enc_g1.push((vec![0xff; 48], true));
        let mut enc_g2: Vec<(Vec<u8>, bool)> = vec![];
        for p in g2.iter().take(g2_nsub) {
            enc_g2.push((p.into_compressed().as_ref().to_vec(), true));
            enc_g2.push((p.into_uncompressed().as_ref().to_vec(), false));
        }
        let mut bad = g2[3].into_compressed().as_ref().to_vec();
        bad[95] ^= 1;
        enc_g2.push((bad, true));
        enc_g2.push((io_gen::pools().g2_nonsub[0].0.clone(), true));
        enc_g2.push((io_gen::pools().g2_nonsub[0].1.clone(), false));
        SPools { g1, g1p, g1_nsub, g2, g2p, g2_nsub, scalars: sc, tiny, fq, fr, fq2, fq6, fq12, msgs, dsts, enc_g1, enc_g2 }
    })
}

/// Pools for the Miri engine: the interpreter is ~10^5 times slower than native code, so the
/// pools avoid full-size scalar multiplications, subgroup checks and most inversions.
/// Points: O, G, 2G, -G (one inversion per group); no off-subgroup points; no invalid encodings.
fn cheap_pools(sc: Vec<Scalar>, tiny: Vec<usize>) -> SPools {
    let mut rng = Rng::new(0x6d69_7269);
    let g1a = G1Affine::one();
    let mut d1 = G1::one();
    d1.double();
    let mut n1 = g1a;
    n1.negate();
    let g1 = vec![G1Affine::zero(), g1a, d1.into_affine(), n1];
    let g1p: Vec<G1> = vec![G1::zero(), G1::one(), d1, n1.into_projective()];
    let g2a = G2Affine::one();
    let mut d2 = G2::one();
    d2.double();
    let mut n2 = g2a;
    n2.negate();
    let g2 = vec![G2Affine::zero(), g2a, d2.into_affine(), n2];
    let g2p: Vec<G2> = vec![G2::zero(), G2::one(), d2, n2.into_projective()];
    let fq = vec![Fq::zero(), Fq::one(), fq_rng(&mut rng), fq_rng(&mut rng)];
    let fr = vec![Fr::zero(), Fr::one(), fr_from_rng(&mut rng), fr_from_rng(&mut rng)];
    let fq2 = vec![Fq2::zero(), Fq2::one(), fq2_rng(&mut rng), fq2_rng(&mut rng)];
    let fq6 = vec![Fq6::zero(), Fq6::one(), fq6_rng(&mut rng)];
    let fq12 = vec![Fq12::zero(), Fq12::one(), Fq12 { c0: fq6_rng(&mut rng), c1: fq6_rng(&mut rng) }];
    let msgs: Vec<Vec<u8>> = vec![vec![], b"abc".to_vec(), b"abcdef0123456789".to_vec()];
    let dsts: Vec<Vec<u8>> = vec![b"QUUX-V01-CS02-with-BLS12381G1_XMD:SHA-256_SSWU_RO_".to_vec(), b"x".to_vec()];
    let enc_g1: Vec<(Vec<u8>, bool)> = g1.iter().flat_map(|p| vec![(p.into_compressed().as_ref().to_vec(), true), (p.into_uncompressed().as_ref().to_vec(), false)]).collect();
    let enc_g2: Vec<(Vec<u8>, bool)> = g2.iter().flat_map(|p| vec![(p.into_compressed().as_ref().to_vec(), true), (p.into_uncompressed().as_ref().to_vec(), false)]).collect();
    SPools { g1_nsub: g1.len(), g1, g1p, g2_nsub: g2.len(), g2, g2p, scalars: sc, tiny, fq, fr, fq2, fq6, fq12, msgs, dsts, enc_g1, enc_g2 }
}
