//! Independent reference for [k]P (DESIGN §3.2.7 oracle 2): textbook affine chord-and-tangent
//! arithmetic on y^2 = x^3 + b with one field inversion per step, LSB-first double-and-add.
//! Shares only the field arithmetic with the library — none of the Jacobian formulas, bit
//! slicing, recoding or tables.

use ff_zeroize::Field;

/// affine point: None = identity
pub type Aff<F> = Option<(F, F)>;

pub fn aff_double<F: Field>(p: &Aff<F>) -> Aff<F> {
    let (x, y) = match p {
        None => return None,
        Some(v) => *v,
    };
    if y.is_zero() {
        return None;
    }
    // lambda = 3x^2 / 2y   (a = 0)
    let mut num = x;
    num.square();
    let mut t = num;
    t.double();
    num.add_assign(&t);
    let mut den = y;
    den.double();
    let mut lam = den.inverse().expect("2y != 0");
    lam.mul_assign(&num);
    let mut x3 = lam;
    x3.square();
    x3.sub_assign(&x);
    x3.sub_assign(&x);
    let mut y3 = x;
    y3.sub_assign(&x3);
    y3.mul_assign(&lam);
    y3.sub_assign(&y);
    Some((x3, y3))
}

pub fn aff_add<F: Field>(p: &Aff<F>, q: &Aff<F>) -> Aff<F> {
    let (x1, y1) = match p {
        None => return *q,
        Some(v) => *v,
    };
    let (x2, y2) = match q {
        None => return *p,
        Some(v) => *v,
    };
    if x1 == x2 {
        if y1 == y2 {
            return aff_double(p);
        }
        return None; // P + (-P)
    }
    let mut num = y2;
    num.sub_assign(&y1);
    let mut den = x2;
    den.sub_assign(&x1);
    let mut lam = den.inverse().expect("x2 != x1");
    lam.mul_assign(&num);
    let mut x3 = lam;
    x3.square();
    x3.sub_assign(&x1);
    x3.sub_assign(&x2);
    let mut y3 = x1;
    y3.sub_assign(&x3);
    y3.mul_assign(&lam);
    y3.sub_assign(&y1);
    Some((x3, y3))
}

/// [k]P for a 256-bit k given as little-endian 64-bit limbs
pub fn aff_mul<F: Field>(p: &Aff<F>, k: &[u64; 4]) -> Aff<F> {
    let mut acc: Aff<F> = None;
    let mut addend = *p;
    let mut top = 0;
    for i in 0..256 {
        if (k[i / 64] >> (i % 64)) & 1 == 1 {
            top = i + 1;
        }
    }
    for i in 0..top {
        if (k[i / 64] >> (i % 64)) & 1 == 1 {
            acc = aff_add(&acc, &addend);
        }
        if i + 1 < top {
            addend = aff_double(&addend);
        }
    }
    acc
}
