//! Engine B shard driver: one process = one strictly sequential stream of scenarios (so that
//! even a library with process-global state behaves deterministically), minimiser, replay.

use crate::io::Counters;
use crate::json::{self, J};
use crate::ops::{Op, Shared};
use crate::sched::*;
use crate::util::{hash_bytes, mix, Digest};
use crate::{geti, harness_error, quiet_panics};
use std::collections::HashMap;
use std::time::{Duration, Instant};

pub const ENGINE_ID: u64 = 0xB;

/// which build of the harness wrote a replay file: "plain", or the function-entry-instrumented
/// builds "mc-fast" / "mc-atomic" (target/mc, target/mca); `./check --replay` uses the same one
pub fn build_tag() -> &'static str {
    if !crate::mc::instrumented() {
        return "plain";
    }
    let exe = std::env::current_exe().map(|p| p.to_string_lossy().to_string()).unwrap_or_default();
    if exe.contains("/mca/") {
        "mc-atomic"
    } else {
        "mc-fast"
    }
}

fn gen_cfg(m: &HashMap<String, String>, focus: &str) -> GenCfg {
    let with_256 = !m.contains_key("no-256");
    GenCfg {
        fresh: m.contains_key("fresh"),
        only_fams: m.get("fams").map(|f| f.split(',').map(|x| x.to_string()).collect()).unwrap_or_default(),
        max_threads: geti(m, "max-threads", 0) as usize,
        wide: geti(m, "wide", 0) as usize,
        long: geti(m, "long", 0) as usize,
        long_budget_us: geti(m, "long-budget-us", 2_000_000),
        no_big: m.contains_key("no-big"),
        focus: focus.to_string(),
        max_window: geti(m, "max-window", if focus == "wnaf" { 13 } else { 8 }) as usize,
        min_window: geti(m, "min-window", 2) as usize,
        with_256,
        nviews_b: [2, 1],
        nviews_s: [2, 1],
        nshared: 2,
    }
}

fn cfg_json(c: &GenCfg) -> J {
    J::obj()
        .set("focus", J::s(&c.focus))
        .set("fresh", J::Bool(c.fresh))
        .set("only_fams", J::Arr(c.only_fams.iter().map(|f| J::s(f)).collect()))
        .set("max_threads", J::u(c.max_threads))
        .set("wide", J::u(c.wide))
        .set("long", J::u(c.long))
        .set("long_budget_us", J::Int(c.long_budget_us as i64))
        .set("no_big", J::Bool(c.no_big))
        .set("max_window", J::u(c.max_window))
        .set("min_window", J::u(c.min_window))
        .set("with_256", J::Bool(c.with_256))
}
fn cfg_from(j: &J) -> GenCfg {
    GenCfg {
        fresh: j.get("fresh").and_then(|x| x.as_bool()).unwrap_or(false),
        only_fams: j.get("only_fams").and_then(|x| x.as_arr()).map(|a| a.iter().filter_map(|x| x.as_str().map(|s| s.to_string())).collect()).unwrap_or_default(),
        max_threads: j.get("max_threads").and_then(|x| x.as_usize()).unwrap_or(0),
        wide: j.get("wide").and_then(|x| x.as_usize()).unwrap_or(0),
        long: j.get("long").and_then(|x| x.as_usize()).unwrap_or(0),
        long_budget_us: j.get("long_budget_us").and_then(|x| x.as_i64()).unwrap_or(2_000_000) as u64,
        no_big: j.get("no_big").and_then(|x| x.as_bool()).unwrap_or(false),
        focus: j.get("focus").and_then(|x| x.as_str()).unwrap_or("c20").to_string(),
        max_window: j.get("max_window").and_then(|x| x.as_usize()).unwrap_or(8),
        min_window: j.get("min_window").and_then(|x| x.as_usize()).unwrap_or(2),
        with_256: j.get("with_256").and_then(|x| x.as_bool()).unwrap_or(true),
        nviews_b: [2, 1],
        nviews_s: [2, 1],
        nshared: 2,
    }
}

pub fn seeded_plan(seed: u64, idx: u64, cfg: &GenCfg) -> SchedPlan {
    if cfg.wide > 0 {
        return gen_wide(mix(seed, ENGINE_ID ^ 0x200, idx), idx as usize, cfg);
    }
    if cfg.long > 0 {
        return gen_long(mix(seed, ENGINE_ID ^ 0x300, idx), idx as usize, cfg);
    }
    gen_plan(mix(seed, ENGINE_ID ^ if cfg.focus == "wnaf" { 0x100 } else { 0 }, idx), cfg)
}

fn stall_timeout() -> Duration {
    let s = std::env::var("PP_SIM_STALL_SECS").ok().and_then(|v| v.parse().ok()).unwrap_or(120u64);
    Duration::from_secs(s)
}

fn explicit(plan: &SchedPlan, decisions: &[usize]) -> SchedPlan {
    let mut p = plan.clone();
    p.schedule = Schedule::Explicit(decisions.to_vec());
    p
}

struct World {
    refs_after: bool,
    shared: Shared,
    ref_shared: Shared,
    refs: Refs,
}

thread_local! {
    /// where to report a stall / deadlock of the scenario being executed: (replay path, result path, property, seed, run index, gen cfg json)
    static STALL_SINK: std::cell::RefCell<Option<(String, String, String, u64, i64, J)>> = const { std::cell::RefCell::new(None) };
}

fn run_once(w: &mut World, plan: &SchedPlan, want_log: bool) -> SRun {
    let cfg = ExecCfg { refs_after: w.refs_after, want_log, check_mul_claims: plan.focus == "wnaf", stall_timeout: stall_timeout() };
    let on_stall = |r: &SRun| {
        // a library call never returned (or every thread is blocked): write the replay file and a
        // minimal result; the process cannot continue (the stuck threads cannot be joined)
        let what = r.stalled.clone().unwrap_or_default();
        STALL_SINK.with(|s| {
            if let Some((replay, result, property, seed, idx, cfgj)) = s.borrow().as_ref() {
                let mut p = plan.clone();
                p.schedule = Schedule::Explicit(r.decisions.clone());
                let v = SViolation { invariant: "c20/no-deadlock-every-call-returns".into(), thread: 0, op_index: 0, op: "".into(), expected: "every library call returns".into(), observed: what.clone() };
                let rj = J::obj()
                    .set("format", J::Int(1))
                    .set("property", J::s(property))
                    .set("engine", J::s("sched")).set("build", J::s(build_tag()))
                    .set("seed", J::Int(*seed as i64))
                    .set("run_index", J::Int(*idx))
                    .set("gen_cfg", cfgj.clone())
                    .set("violation", v.to_json())
                    .set("plan", p.to_json())
                    .set("original_plan", plan.to_json())
                    .set("prelude_run_indices", J::Arr(vec![]));
                let _ = std::fs::write(replay, crate::util::with_knob(rj).pretty());
                let res = J::obj().set("stalled", J::obj().set("replay", J::s(replay)).set("what", J::s(&what)).set("index", J::Int(*idx)).set("detail", v.to_json()));
                let _ = std::fs::write(result, res.to_string());
            }
        });
        eprintln!("STALL: {}", what);
    };
    run_plan(plan, &w.shared, &w.ref_shared, &mut w.refs, &cfg, &on_stall)
}

fn fails_same(w: &mut World, plan: &SchedPlan, class: &str) -> Option<SViolation> {
    match run_once(w, plan, false).violation {
        Some(v) if v.class() == class => Some(v),
        _ => None,
    }
}

fn drop_thread(p: &SchedPlan, t: usize) -> SchedPlan {
    let mut c = p.clone();
    c.threads.remove(t);
    if let Schedule::Explicit(v) = &c.schedule {
        let nv: Vec<usize> = v.iter().filter(|x| **x % 64 != t).map(|x| if *x % 64 > t { *x - 1 } else { *x }).collect();
        c.schedule = Schedule::Explicit(nv);
    }
    c
}

/// delta-debug the plan while the same violation class (invariant + operation kind) persists
fn minimise(w: &mut World, plan: &SchedPlan, viol: &SViolation) -> (SchedPlan, SViolation, usize) {
    let class = viol.class();
    let mut cur = plan.clone();
    let mut curv = viol.clone();
    let mut tries = 0usize;
    let mut changed = true;
    while changed && tries < 3000 {
        changed = false;
        macro_rules! attempt {
            ($cand:expr) => {{
                let cand: SchedPlan = $cand;
                tries += 1;
                if cand != cur && !cand.threads.is_empty() {
                    if let Some(v) = fails_same(w, &cand, &class) {
                        cur = cand;
                        curv = v;
                        changed = true;
                        true
                    } else {
                        false
                    }
                } else {
                    false
                }
            }};
        }
        // fewer threads
        let mut t = 0;
        while t < cur.threads.len() && cur.threads.len() > 1 {
            if !attempt!(drop_thread(&cur, t)) {
                t += 1;
            }
        }
        // no faults, no seams, simplest schedule
        for t in 0..cur.threads.len() {
            if t >= cur.threads.len() {
                break;
            }
            let mut c = cur.clone();
            c.threads[t].die_after = None;
            c.threads[t].stall_after = None;
            c.threads[t].exit_after = None;
            attempt!(c);
            if t < cur.threads.len() && !cur.threads[t].preempt_at.is_empty() {
                let mut c = cur.clone();
                c.threads[t].preempt_at.clear();
                attempt!(c);
            }
        }
        let mut c = cur.clone();
        c.yield_mask = 0;
        attempt!(c);
        let mut c = cur.clone();
        c.schedule = Schedule::Sequential;
        attempt!(c);
        // fewer operations
        for t in 0..cur.threads.len() {
            if t >= cur.threads.len() {
                break;
            }
            let mut i = cur.threads[t].ops.len();
            while i > 0 {
                i -= 1;
                if t >= cur.threads.len() || i >= cur.threads[t].ops.len() {
                    break;
                }
                if cur.threads[t].ops.len() <= 1 && cur.threads.len() == 1 {
                    break;
                }
                let mut c = cur.clone();
                c.threads[t].ops.remove(i);
                let shift = |o: &mut Option<usize>| {
                    if let Some(v) = o {
                        if *v >= i && *v > 0 {
                            *v -= 1;
                        }
                    }
                };
                shift(&mut c.threads[t].die_after);
                shift(&mut c.threads[t].stall_after);
                shift(&mut c.threads[t].exit_after);
                if c.threads[t].ops.is_empty() {
                    if c.threads.len() > 1 {
                        c = drop_thread(&c, t);
                        if attempt!(c) {
                            break;
                        }
                    }
                    continue;
                }
                attempt!(c);
            }
            if t >= cur.threads.len() {
                break;
            }
        }
        // simpler arguments
        for t in 0..cur.threads.len() {
            for i in 0..cur.threads[t].ops.len() {
                for a in 0..cur.threads[t].ops[i].a.len() {
                    if t >= cur.threads.len() || i >= cur.threads[t].ops.len() || a >= cur.threads[t].ops[i].a.len() {
                        break;
                    }
                    let v = cur.threads[t].ops[i].a[a];
                    for cand in [0usize, 1, v / 2] {
                        if cand < v {
                            let mut c = cur.clone();
                            c.threads[t].ops[i].a[a] = cand;
                            if attempt!(c) {
                                break;
                            }
                        }
                    }
                }
            }
        }
        // drop unused views and shared contexts
        let mut c = cur.clone();
        if !c.threads.iter().any(|t| t.ops.iter().any(|o| o.k.contains("wnaf_view"))) {
            c.views_b.clear();
            c.views_s.clear();
            attempt!(c);
        }
    }
    // shortest prefix of the explicit schedule that still fails (after it, the lowest runnable thread runs)
    if let Schedule::Explicit(v) = cur.schedule.clone() {
        let (mut lo, mut hi) = (0usize, v.len());
        while lo < hi && tries < 4000 {
            let mid = (lo + hi) / 2;
            let mut c = cur.clone();
            c.schedule = Schedule::Explicit(v[..mid].to_vec());
            tries += 1;
            if let Some(nv) = fails_same(w, &c, &class) {
                hi = mid;
                curv = nv;
            } else {
                lo = mid + 1;
            }
        }
        if hi < v.len() {
            let mut c = cur.clone();
            c.schedule = Schedule::Explicit(v[..hi].to_vec());
            if let Some(nv) = fails_same(w, &c, &class) {
                cur = c;
                curv = nv;
            }
        }
    }
    (cur, curv, tries)
}

fn replay_json(property: &str, seed: u64, idx: i64, cfg: &GenCfg, plan: &SchedPlan, original: &SchedPlan, prelude: &[u64], v: &SViolation, log: &[String]) -> J {
    J::obj()
        .set("format", J::Int(1))
        .set("property", J::s(property))
        .set("engine", J::s("sched")).set("build", J::s(build_tag()))
        .set("seed", J::Int(seed as i64))
        .set("run_index", J::Int(idx))
        .set("gen_cfg", cfg_json(cfg))
        .set("violation", v.to_json())
        .set("plan", plan.to_json())
        .set("original_plan", original.to_json())
        .set("prelude_run_indices", J::Arr(prelude.iter().map(|x| J::Int(*x as i64)).collect()))
        .set("prelude_note", J::s("scenarios (regenerated from seed and gen_cfg) that must be executed in the same process before the plan; empty when the plan alone reproduces the violation"))
        .set("event_log", J::Arr(log.iter().map(|l| J::s(l)).collect()))
}

fn fresh_process_replay(path: &str) -> i32 {
    let exe = std::env::current_exe().unwrap();
    match std::process::Command::new(exe).arg("replay").arg(path).arg("--quiet").status() {
        Ok(s) => s.code().unwrap_or(2),
        Err(_) => 2,
    }
}

/// minimise a violating scenario, write its replay file and confirm it by re-execution in a fresh
/// process (alone, then behind a growing suffix of the shard's earlier scenarios).
#[allow(clippy::too_many_arguments)]
fn process_violation(w: &mut World, property: &str, seed: u64, cfg: &GenCfg, replay_dir: &str, done_indices: &[u64], vidx: i64, plan: &SchedPlan, r: &SRun) -> (J, bool) {
    let v = r.violation.clone().unwrap();
    let ex = explicit(plan, &r.decisions);
    // the explicit schedule must reproduce it in-process; otherwise keep the generated schedule
    let base = if fails_same(w, &ex, &v.class()).is_some() { ex } else { plan.clone() };
    let (minp, minv, tries) = minimise(w, &base, &v);
    let lr = run_once(w, &minp, true);
    let _ = std::fs::create_dir_all(replay_dir);
    let path = format!("{}/{}-{}-{}{}.json", replay_dir, property, seed, if vidx < 0 { "selfcheck" } else { "run" }, if vidx < 0 { -vidx - 1 } else { vidx });
    let write = |plan: &SchedPlan, prelude: &[u64], v: &SViolation, log: &[String]| {
        let rj = replay_json(property, seed, vidx, cfg, plan, &base, prelude, v, log);
        if let Err(e) = std::fs::write(&path, crate::util::with_knob(rj).pretty()) {
            harness_error(&format!("cannot write {}: {}", path, e));
        }
    };
    write(&minp, &[], &minv, &lr.log);
    let mut reproduced = fresh_process_replay(&path) == 1;
    let mut prelude_len = 0usize;
    if !reproduced {
        // the violation may depend on library state left by earlier scenarios of this process:
        // replay the unminimised plan behind a growing suffix of the earlier scenarios
        let prev: Vec<u64> = done_indices.iter().copied().filter(|i| (*i as i64) < vidx).collect();
        let mut m = 0usize;
        loop {
            let pre: Vec<u64> = prev[prev.len() - m.min(prev.len())..].to_vec();
            write(&base, &pre, &v, &lr.log);
            // schedule-dependent violations under locks do not always repeat: two attempts per prelude
            if fresh_process_replay(&path) == 1 || fresh_process_replay(&path) == 1 {
                reproduced = true;
                prelude_len = pre.len();
                break;
            }
            if m >= prev.len() {
                break;
            }
            m = if m == 0 { 1 } else { m * 2 };
        }
    }
    let vj = J::obj()
        .set("replay", J::s(&path))
        .set("index", J::Int(vidx))
        .set("detail", minv.to_json())
        .set("minimise_tries", J::u(tries))
        .set("original_threads", J::u(plan.threads.len()))
        .set("original_ops", J::u(plan.threads.iter().map(|t| t.ops.len()).sum()))
        .set("minimised_threads", J::u(minp.threads.len()))
        .set("minimised_ops", J::u(minp.threads.iter().map(|t| t.ops.len()).sum()))
        .set("prelude_scenarios_needed", J::u(prelude_len))
        .set("reproduced_in_fresh_process", J::Bool(reproduced));
    (vj, reproduced)
}

pub fn cmd_sched(m: &HashMap<String, String>) -> i32 {
    quiet_panics();
    let focus = m.get("focus").cloned().unwrap_or_else(|| "c20".to_string());
    let seed = geti(m, "seed", 1);
    let shard = geti(m, "shard", 0);
    let of = geti(m, "of", 1).max(1);
    let mut total = geti(m, "runs", 1000);
    let secs = geti(m, "secs", 0);
    let out = m.get("out").cloned().unwrap_or_else(|| "/dev/stdout".to_string());
    let replay_dir = m.get("replay-dir").cloned().unwrap_or_else(|| "/verif/replays".to_string());
    let property = m.get("property").cloned().unwrap_or_else(|| if focus == "wnaf" { "C02".into() } else { "C20".into() });
    let cfg = gen_cfg(m, &focus);
    if (cfg.wide > 0 || cfg.long > 0) && total == 0 {
        // one wide scenario per operation kind of the allowed families
        total = wide_kinds(&cfg).len() as u64;
    }
    crate::ops::CLAIMS_ENABLED.store(focus == "wnaf", std::sync::atomic::Ordering::Relaxed);
    let selfcheck = m.contains_key("selfcheck");
    let known: Vec<String> = m.get("known").map(|k| k.split(';').filter(|x| !x.is_empty()).map(|x| x.to_string()).collect()).unwrap_or_default();
    let t0 = Instant::now();
    let deadline = if secs > 0 { Some(t0 + Duration::from_secs(secs)) } else { None };

    if let Some(path) = m.get("write-crash-replay") {
        // the driver saw this very command die from a signal while executing scenario `crash-index`
        // (recorded in <out>.cur): write the replay file for it - the scenario as generated, behind the
        // scenarios this shard ran before it
        let idx = geti(m, "crash-index", 0);
        let plan = seeded_plan(seed, idx, &cfg);
        let mut pre = vec![];
        let mut i = shard;
        while i < idx {
            pre.push(J::Int(i as i64));
            i += of;
        }
        let v = SViolation {
            invariant: CRASH_INVARIANT.into(),
            thread: 0,
            op_index: 0,
            op: "".into(),
            expected: "every library call returns and the process survives".into(),
            observed: format!("the process was killed by signal {} while executing this scenario", m.get("crash-signal").cloned().unwrap_or_default()),
        };
        let rj = J::obj()
            .set("format", J::Int(1))
            .set("property", J::s(&property))
            .set("engine", J::s("sched")).set("build", J::s(build_tag()))
            .set("seed", J::Int(seed as i64))
            .set("run_index", J::Int(idx as i64))
            .set("gen_cfg", cfg_json(&cfg))
            .set("violation", v.to_json())
            .set("plan", plan.to_json())
            .set("original_plan", plan.to_json())
            .set("prelude_run_indices", J::Arr(pre));
        if let Err(e) = std::fs::write(path, crate::util::with_knob(rj).pretty()) {
            harness_error(&format!("cannot write {}: {}", path, e));
        }
        return 0;
    }
    let cur_marker = if out != "/dev/stdout" { Some(format!("{}.cur", out)) } else { None };

    // "fresh" mode: nothing of the library is exercised before the first scenario that is not needed
    let mut w = if cfg.fresh {
        World { refs_after: true, shared: Shared::build_for(&[]), ref_shared: Shared::build_for(&[]), refs: Refs::new() }
    } else {
        World { refs_after: false, shared: Shared::build(cfg.with_256), ref_shared: Shared::build(cfg.with_256), refs: Refs::new() }
    };
    let setup_s = t0.elapsed().as_secs_f64();
    let _ = std::fs::create_dir_all(&replay_dir);
    STALL_SINK.with(|s| *s.borrow_mut() = Some((format!("{}/{}-{}-stall-selfcheck.json", replay_dir, property, seed), out.clone(), property.clone(), seed, -1, cfg_json(&cfg))));
    *crate::sched::REF_STALL_SINK.lock().unwrap() = Some((format!("{}/{}-{}-stall-ref{}.json", replay_dir, property, seed, shard), out.clone(), property.clone(), seed, cfg_json(&cfg).to_string()));

    let mut counters = Counters::default();
    let mut dg = Digest::new();
    let mut tdg = Digest::new();
    let mut runs = 0u64;
    let mut ops = 0u64;
    let mut decisions = 0u64;
    let mut sched_hashes: Vec<u64> = vec![];
    let mut hist_hashes: Vec<u64> = vec![];
    let mut pair_hashes: Vec<u64> = vec![];
    let mut nontrivial_runs = 0u64;
    let mut kinds = Counters::default();
    let mut samples: Vec<J> = vec![];
    let mut done_indices: Vec<u64> = vec![];
    let mut confirmed: Option<J> = None;
    let mut unconfirmed: Vec<J> = vec![];

    // ---- sequential self-check: the whole catalogue forward and in reverse on one thread
    if selfcheck {
        let cat = crate::sched::catalogue(&cfg);
        let neigh = crate::sched::neighbour_catalogue(&cfg);
        for (name, order) in [("forward", cat.clone()), ("reverse", cat.iter().rev().cloned().collect::<Vec<Op>>()), ("neighbours", neigh)] {
            let plan = SchedPlan {
                focus: focus.clone(),
                threads: vec![ThreadPlan { ops: order, ..Default::default() }],
                views_b: vec![(1, 3, 4), (1, 4, 9), (2, 3, 4)],
                views_s: vec![(1, 6), (1, 20), (2, 6)],
                nshared_ctx: 2,
                yield_mask: 0,
                schedule: Schedule::Sequential,
            };
            let r = run_once(&mut w, &plan, false);
            counters.merge(&r.counters);
            counters.add(&format!("selfcheck_{}_ops", name), r.ops_run as u64);
            dg.u64(r.digest);
            ops += r.ops_run as u64;
            if let Some(v) = &r.violation {
                if known.iter().any(|k| *k == v.class()) {
                    counters.inc(&format!("known_finding_hit|{}", v.class()));
                } else if confirmed.is_none() {
                    let (vj, ok) = process_violation(&mut w, &property, seed, &cfg, &replay_dir, &done_indices, -(1 + shard as i64), &plan, &r);
                    if ok {
                        confirmed = Some(vj);
                    } else {
                        unconfirmed.push(vj);
                    }
                }
            }
        }
    }

    // ---- C02: every path x every hand-made scalar of this shard's residue class, on one thread
    if focus == "wnaf" && !cfg.fresh && cfg.wide == 0 && cfg.long == 0 && cfg.max_window <= 16 && confirmed.is_none() {
        let sweep = crate::sched::scalar_sweep(shard as usize, of as usize, cfg.with_256);
        for chunk in sweep.chunks(400) {
            let plan = SchedPlan {
                focus: focus.clone(),
                threads: vec![ThreadPlan { ops: chunk.to_vec(), ..Default::default() }],
                views_b: vec![(1, 3, 4), (1, 4, 9), (2, 3, 4)],
                views_s: vec![(1, 6), (1, 20), (2, 6)],
                nshared_ctx: 2,
                yield_mask: 0,
                schedule: Schedule::Sequential,
            };
            let r = run_once(&mut w, &plan, false);
            counters.merge(&r.counters);
            counters.add("scalar_sweep_ops", r.ops_run as u64);
            dg.u64(r.digest);
            ops += r.ops_run as u64;
            if let Some(v) = &r.violation {
                if known.iter().any(|k| *k == v.class()) {
                    counters.inc(&format!("known_finding_hit|{}", v.class()));
                } else if confirmed.is_none() {
                    let (vj, ok) = process_violation(&mut w, &property, seed, &cfg, &replay_dir, &done_indices, -(1 + shard as i64), &plan, &r);
                    if ok {
                        confirmed = Some(vj);
                    } else {
                        unconfirmed.push(vj);
                    }
                }
            }
        }
    }

    // ---- seeded scenarios of this shard
    let mut idx = shard;
    while idx < total && confirmed.is_none() && unconfirmed.len() < 4 {
        if let Some(d) = deadline {
            if Instant::now() >= d {
                break;
            }
        }
        let plan = seeded_plan(seed, idx, &cfg);
        if let Some(c) = &cur_marker {
            let _ = std::fs::write(c, idx.to_string());
        }
        STALL_SINK.with(|s| {
            *s.borrow_mut() = Some((format!("{}/{}-{}-stall{}.json", replay_dir, property, seed, idx), out.clone(), property.clone(), seed, idx as i64, cfg_json(&cfg)))
        });
        let r = run_once(&mut w, &plan, false);
        runs += 1;
        done_indices.push(idx);
        ops += r.ops_run as u64;
        decisions += r.decisions.len() as u64;
        dg.u64(idx);
        dg.u64(r.digest);
        tdg.u64(r.trace_digest);
        if m.contains_key("dump-digests") {
            eprintln!("DIGEST {} {:016x} decisions={} blocked={} sync={}", idx, r.digest, r.decisions.len(), r.counters.get("threads_found_blocked_on_a_lock"), r.counters.get("sync_points_reached"));
        }
        counters.merge(&r.counters);
        for t in &plan.threads {
            for o in &t.ops {
                kinds.inc(&o.k);
            }
        }
        counters.inc(match &plan.schedule {
            Schedule::Random(_) => "scheduler_random",
            Schedule::Pct(..) => "scheduler_pct",
            Schedule::RoundRobin(_) => "scheduler_round_robin",
            Schedule::Sequential => "scheduler_sequential",
            Schedule::Explicit(_) => "scheduler_explicit",
        });
        counters.inc(&format!("threads_{:02}", plan.threads.len()));
        let mut sh = Digest::new();
        sh.u64(plan.threads.len() as u64);
        for d in &r.decisions {
            // quanta only matter where synchronisation points exist (instrumented build)
            sh.u64(if crate::mc::instrumented() { *d as u64 } else { (*d % 64) as u64 });
        }
        sched_hashes.push(sh.finish());
        if plan.threads.len() >= 2 && r.decisions.windows(2).any(|p| p[0] % 64 != p[1] % 64) {
            nontrivial_runs += 1;
        }
        hist_hashes.extend(r.object_histories.iter().copied());
        pair_hashes.extend(r.pair_kinds.iter().copied());
        if samples.len() < 2 && plan.threads.len() >= 2 && plan.threads.len() <= 3 && runs > 1 {
            let lr = run_once(&mut w, &explicit(&plan, &r.decisions), true);
            samples.push(J::obj().set("run_index", J::Int(idx as i64)).set("plan", explicit(&plan, &r.decisions).to_json()).set("event_log", J::Arr(lr.log.iter().map(|l| J::s(l)).collect())));
        }
        if let Some(v) = &r.violation {
            if known.iter().any(|k| *k == v.class()) {
                counters.inc(&format!("known_finding_hit|{}", v.class()));
            } else {
                // confirm at once; a violation that does not repeat on re-execution is set aside and the
                // search goes on (up to four of them), so that a reproducible one can still be found
                let (vj, ok) = process_violation(&mut w, &property, seed, &cfg, &replay_dir, &done_indices, idx as i64, &plan, &r);
                if ok {
                    confirmed = Some(vj);
                } else {
                    counters.inc("violations_observed_but_not_reproduced");
                    unconfirmed.push(vj);
                }
            }
        }
        idx += of;
    }

    let mut res = J::obj()
        .set("engine", J::s("sched"))
        .set("focus", J::s(&focus))
        .set("seed", J::Int(seed as i64))
        .set("shard", J::Int(shard as i64))
        .set("of", J::Int(of as i64))
        .set("gen_cfg", cfg_json(&cfg))
        .set("runs", J::Int(runs as i64))
        .set("ops", J::Int(ops as i64))
        .set("decisions", J::Int(decisions as i64))
        .set("reference_images_computed", J::u(w.refs.computed))
        .set("ref_images", {
            // every isolated evaluation this process made: operation key -> hash of its outcome. The driver
            // compares them across processes (different histories, different first uses, different CPU masks):
            // the same call must give the same bits in every process
            let mut o = J::obj();
            let mut keys: Vec<&String> = w.refs.map.keys().collect();
            keys.sort();
            for k in keys {
                let h = match &w.refs.map[k] {
                    Outcome::Image(i) => format!("{:016x}", hash_bytes(i)),
                    Outcome::LibPanic(_) => "panic".to_string(),
                    Outcome::HarnessDied => "died".to_string(),
                };
                o.put(k, J::s(&h));
            }
            o
        })
        .set("digest", J::s(&format!("{:016x}", dg.finish())))
        .set("trace_digest", J::s(&format!("{:016x}", tdg.finish())))
        .set("counters", counters.to_json())
        .set("op_kinds", kinds.to_json())
        .set("schedule_hashes", J::Arr(sched_hashes.iter().map(|h| J::s(&format!("{:x}", h))).collect()))
        .set("history_hashes", J::Arr(hist_hashes.iter().map(|h| J::s(&format!("{:x}", h))).collect()))
        .set("pair_hashes", J::Arr(pair_hashes.iter().map(|h| J::s(&format!("{:x}", h))).collect()))
        .set("interleaved_runs", J::Int(nontrivial_runs as i64))
        .set("samples", J::Arr(samples))
        .set("instrumented_build", J::Bool(crate::mc::instrumented()))
        .set("sync_functions_in_library", J::u(crate::mc::sync_functions().1))
        .set("sync_functions_on_library_types", J::u(crate::mc::sync_functions().0))
        .set("sync_function_names", J::Arr(crate::mc::sync_functions().2.iter().map(|n| J::s(n)).collect()))
        .set("setup_s", J::Num(setup_s));

    let mut code = 0;
    if let Some(vj) = confirmed {
        res.put("violation", vj);
        code = 1;
    } else if let Some(vj) = unconfirmed.first().cloned() {
        res.put("violation", vj);
        res.put("unconfirmed_violations", J::u(unconfirmed.len()));
        res.put("harness_error", J::s("violation(s) did not reproduce in a fresh process, even behind the full scenario history of the shard"));
        code = 2;
    }
    res.put("wall_s", J::Num(t0.elapsed().as_secs_f64()));
    let res = crate::util::with_knob(res);
    if let Err(e) = std::fs::write(&out, res.to_string()) {
        harness_error(&format!("cannot write {}: {}", out, e));
    }
    code
}

/// `pp-sim replay <file>` for engine "sched"
pub const CRASH_INVARIANT: &str = "c20/no-crash-every-call-returns";

pub fn replay(path: &str, j: &J, quiet: bool) -> i32 {
    let property = j.get("property").and_then(|e| e.as_str()).unwrap_or("?").to_string();
    let recorded = j.get("violation").and_then(|v| v.get("invariant")).and_then(|x| x.as_str()).unwrap_or("").to_string();
    if recorded == CRASH_INVARIANT && std::env::var("PP_SIM_CRASH_CHILD").is_err() {
        // the recorded violation is the death of the process: re-execute in a child and look at how it ends
        let exe = std::env::current_exe().unwrap();
        let adopt = std::env::args().any(|a| a == "--adopt");
        let st = std::process::Command::new(&exe).arg("replay").arg(path).arg("--quiet").env("PP_SIM_CRASH_CHILD", if adopt { "adopt" } else { "1" }).status();
        use std::os::unix::process::ExitStatusExt;
        return match st {
            Ok(s) if s.signal().is_some() => {
                if !quiet {
                    println!("violated: {}: the process executing the scenario was killed by signal {}", CRASH_INVARIANT, s.signal().unwrap());
                    println!("VIOLATION property={} replay={}", property, path);
                }
                1
            }
            Ok(s) if s.code() == Some(1) || s.code() == Some(3) => {
                if !quiet {
                    println!("a different violation occurred (recorded: the process was killed by a signal)");
                    println!("VIOLATION property={} replay={}", property, path);
                }
                3
            }
            Ok(s) if s.code() == Some(0) => {
                if !quiet {
                    println!("replay of {}: no violation on this tree", path);
                }
                0
            }
            other => harness_error(&format!("replay child of {} ended unexpectedly: {:?}", path, other)),
        };
    }
    let plan = match j.get("plan").ok_or("no plan".to_string()).and_then(SchedPlan::from_json) {
        Ok(p) => p,
        Err(e) => harness_error(&format!("{}: {}", path, e)),
    };
    let cfg = j.get("gen_cfg").map(cfg_from).unwrap_or_else(|| cfg_from(&J::obj()));
    crate::ops::CLAIMS_ENABLED.store(plan.focus == "wnaf", std::sync::atomic::Ordering::Relaxed);
    let seed = j.get("seed").and_then(|s| s.as_i64()).unwrap_or(1) as u64;
    let want = j
        .get("violation")
        .map(|v| {
            let op = v.get("op").and_then(|x| x.as_str()).unwrap_or("");
            format!("{}|{}", v.get("invariant").and_then(|x| x.as_str()).unwrap_or(""), op.split(' ').next().unwrap_or("")).replace(' ', "_")
        })
        .unwrap_or_default();
    let mut w = if cfg.fresh {
        World { refs_after: true, shared: Shared::build_for(&[]), ref_shared: Shared::build_for(&[]), refs: Refs::new() }
    } else {
        World { refs_after: false, shared: Shared::build(cfg.with_256), ref_shared: Shared::build(cfg.with_256), refs: Refs::new() }
    };
    if let Some(pre) = j.get("prelude_run_indices").and_then(|p| p.as_arr()) {
        for i in pre {
            if let Some(i) = i.as_i64() {
                let p = seeded_plan(seed, i as u64, &cfg);
                let r = run_once(&mut w, &p, false);
                if !quiet {
                    println!("  prelude scenario {}: {} ops{}", i, r.ops_run, if r.violation.is_some() { " (violates already)" } else { "" });
                }
            }
        }
    }
    let r = run_once(&mut w, &plan, true);
    if !quiet {
        println!("  counters: {}", r.counters.to_json().to_string());
        println!("  schedule: {:?}", r.decisions);
        for l in &r.log {
            println!("  {}", l);
        }
    }
    match r.violation {
        Some(v) => {
            let same = v.class() == want || want.is_empty();
            if !same && recorded == CRASH_INVARIANT && std::env::var("PP_SIM_CRASH_CHILD").map(|x| x == "adopt").unwrap_or(false) {
                // the driver saw the process die while executing this scenario; re-executed, the scenario
                // ends with this (wrong result) instead: record what the replay file reproduces
                let mut j2 = j.clone();
                j2.put("violation", v.to_json());
                j2.put("first_observed_as", J::s("the process executing this scenario was killed by a signal"));
                let _ = std::fs::write(path, j2.pretty());
            }
            if !quiet {
                println!("violated: {} at thread {} op {} ({}): expected {}; observed {}", v.invariant, v.thread, v.op_index, v.op, v.expected, v.observed);
                if !same {
                    println!("(recorded violation class was {})", want);
                }
                println!("VIOLATION property={} replay={}", property, path);
            }
            if same {
                1
            } else {
                3
            }
        }
        None => {
            if !quiet {
                println!("replay of {}: no violation on this tree", path);
            }
            0
        }
    }
}

#[allow(dead_code)]
pub fn unused(_: u64) -> u64 {
    hash_bytes(b"")
}
