//! Engine A batch driver: parallel execution of sweep and search plans, minimiser,
//! replay files, result JSON.

use crate::io::*;
use crate::io_gen::*;
use crate::json::{self, J};
use crate::model::VDesc;
use crate::util::{hash_bytes, mix};
use std::sync::atomic::{AtomicBool, AtomicUsize, Ordering};
use std::sync::Mutex;
use std::time::Instant;

pub const ENGINE_ID: u64 = 0xA;

pub struct BatchOut {
    pub digests: Vec<u64>,
    pub counters: Counters,
    pub steps: u64,
    pub faults: u64,
    pub nontrivial_hashes: Vec<u64>,
    pub all_hashes: Vec<u64>,
    pub first_violation: Option<(usize, IoPlan, Violation)>,
    pub violations: usize,
    pub strata: Counters,
    /// 1 + the largest plan index executed (a shard re-run with `--runs` set to this executes the same plans)
    pub max_index_plus_one: usize,
}

/// Run `n` plans produced by `plan_of(i)` on `workers` threads. If `deadline` passes, no
/// new plan is started; the number actually run is `digests.len()` (a contiguous prefix).
pub fn run_batch<F: Fn(usize) -> IoPlan + Sync>(n: usize, workers: usize, deadline: Option<Instant>, known: &[String], plan_of: F) -> BatchOut {
    run_batch_sharded(n, workers, deadline, known, None, plan_of)
}

/// `shard = Some((s, of))`: this process executes, sequentially (one worker), exactly the chunks
/// `c` with `c % of == s`, in increasing order. Everything a plan can observe of earlier plans -
/// per-thread state within its chunk, process-global state across chunks - is then a function of
/// the shard's own index sequence, so a violation replays from that sequence alone.
pub fn run_batch_sharded<F: Fn(usize) -> IoPlan + Sync>(n: usize, workers: usize, deadline: Option<Instant>, known: &[String], shard: Option<(usize, usize)>, plan_of: F) -> BatchOut {
    let workers = if shard.is_some() { 1 } else { workers };
    let next = AtomicUsize::new(0);
    let stop = AtomicBool::new(false);
    struct Acc {
        digests: Vec<(usize, u64)>,
        counters: Counters,
        strata: Counters,
        steps: u64,
        faults: u64,
        nontrivial: Vec<u64>,
        all: Vec<u64>,
        first: Option<(usize, IoPlan, Violation)>,
        violations: usize,
    }
    let acc = Mutex::new(Acc {
        digests: Vec::with_capacity(n.min(1 << 22)),
        counters: Counters::default(),
        strata: Counters::default(),
        steps: 0,
        faults: 0,
        nontrivial: vec![],
        all: vec![],
        first: None,
        violations: 0,
    });
    std::thread::scope(|s| {
        for _ in 0..workers {
            s.spawn(|| {
                let mut local = Acc {
                    digests: vec![],
                    counters: Counters::default(),
                    strata: Counters::default(),
                    steps: 0,
                    faults: 0,
                    nontrivial: vec![],
                    all: vec![],
                    first: None,
                    violations: 0,
                };
                loop {
                    if stop.load(Ordering::Relaxed) {
                        break;
                    }
                    // a chunk of CHUNK consecutive plan indices is one unit of work, executed in order
                    // on one brand-new OS thread: per-thread state a tree may keep lives at most as long
                    // as the chunk, and which plans share a thread is a function of the indices alone
                    let c = next.fetch_add(1, Ordering::Relaxed);
                    let c = match shard {
                        Some((sh, of)) => sh + c * of,
                        None => c,
                    };
                    let lo = c * CHUNK;
                    if lo >= n {
                        break;
                    }
                    let hi = (lo + CHUNK).min(n);
                    if shard.is_some() {
                        if let Some((path, batch)) = CUR_MARKER.lock().unwrap().as_ref() {
                            let _ = std::fs::write(path, format!("{} {}", batch, hi - 1));
                        }
                    }
                    if let Some(d) = deadline {
                        if Instant::now() >= d {
                            stop.store(true, Ordering::Relaxed);
                            // this chunk was claimed: still run it so the prefix stays contiguous
                        }
                    }
                    let plans: Vec<IoPlan> = (lo..hi).map(|i| plan_of(i)).collect();
                    let results = execute_chunk(&plans);
                    for (k, r) in results.into_iter().enumerate() {
                        let i = lo + k;
                        let plan = &plans[k];
                        local.digests.push((i, r.digest));
                        local.steps += r.steps as u64;
                        local.faults += r.faults_fired as u64;
                        local.counters.merge(&r.counters);
                        local.strata.inc(&plan.stratum);
                        let h = hash_bytes(plan.to_json().to_string().as_bytes());
                        local.all.push(h);
                        if r.faults_fired > 0 {
                            local.nontrivial.push(h);
                        }
                        if let Some(v) = r.violation {
                            if known.iter().any(|k| *k == v.class()) {
                                // a listed known finding: counted, reported by the driver, not a new violation
                                local.counters.inc(&format!("known_finding_hit|{}", v.class()));
                                continue;
                            }
                            local.violations += 1;
                            if local.first.as_ref().map(|f| i < f.0).unwrap_or(true) {
                                local.first = Some((i, plan.clone(), v));
                            }
                        }
                    }
                }
                let mut a = acc.lock().unwrap();
                a.digests.extend(local.digests);
                a.counters.merge(&local.counters);
                a.strata.merge(&local.strata);
                a.steps += local.steps;
                a.faults += local.faults;
                a.nontrivial.extend(local.nontrivial);
                a.all.extend(local.all);
                a.violations += local.violations;
                if let Some(f) = local.first {
                    if a.first.as_ref().map(|g| f.0 < g.0).unwrap_or(true) {
                        a.first = Some(f);
                    }
                }
            });
        }
    });
    let mut a = acc.into_inner().unwrap();
    a.digests.sort();
    // with a deadline, indices may have a ragged tail; keep the contiguous prefix
    // (a shard runs sequentially: what it ran is already a prefix of its own chunk sequence)
    if shard.is_none() {
        let mut m = 0;
        while m < a.digests.len() && a.digests[m].0 == m {
            m += 1;
        }
        a.digests.truncate(m);
    }
    BatchOut {
        max_index_plus_one: a.digests.last().map(|x| x.0 + 1).unwrap_or(0),
        digests: a.digests.into_iter().map(|x| x.1).collect(),
        counters: a.counters,
        steps: a.steps,
        faults: a.faults,
        nontrivial_hashes: a.nontrivial,
        all_hashes: a.all,
        first_violation: a.first,
        violations: a.violations,
        strata: a.strata,
    }
}

pub const CHUNK: usize = 32;

pub const CRASH_INVARIANT: &str = "serdes/no-crash-every-call-returns";

/// (path, batch name): a shard records the chunk it is about to execute, so that the driver can
/// name the plans a process killed by a signal was executing
pub static CUR_MARKER: Mutex<Option<(String, String)>> = Mutex::new(None);

// ---- use of the library while a thread shuts down
//
// A caller may keep a per-thread recorder that is set up when the thread starts and flushes its last
// values - through SerDes - from its destructor when the thread exits. Every simulated thread registers
// such a thread-local *before* its first library call (destructors run last-registered-first, so
// anything the library registered later is torn down before it) and performs a nested round trip from
// the destructor. A panic there would abort the process: it is caught and recorded instead.

static EXIT_FAULTS: Mutex<Vec<(std::thread::ThreadId, String)>> = Mutex::new(Vec::new());
/// how often a nested call from the exit destructor met a thread-local of the library that was already gone
pub static TLS_GONE: AtomicUsize = AtomicUsize::new(0);

struct ExitFlush;
impl Drop for ExitFlush {
    fn drop(&mut self) {
        io_watch_arm();
        let r = std::panic::catch_unwind(nested_roundtrip);
        io_watch_disarm();
        let fault = match r {
            Ok(None) => None,
            Ok(Some(e)) => Some(e),
            Err(p) => Some(format!(
                "the nested round trip panicked: {}",
                p.downcast_ref::<String>().cloned().or_else(|| p.downcast_ref::<&str>().map(|s| s.to_string())).unwrap_or_default()
            )),
        };
        // `LocalKey::with` on a thread-local that has a destructor panics here by std's documented contract -
        // for a correct per-thread buffer as much as for a broken one: a probe, not a verdict (DESIGN 6.1)
        let fault = match fault {
            Some(f) if f.contains("Thread Local Storage value during or after destruction") => {
                TLS_GONE.fetch_add(1, Ordering::Relaxed);
                None
            }
            other => other,
        };
        if let Some(f) = fault {
            if let Ok(mut g) = EXIT_FAULTS.lock() {
                g.push((std::thread::current().id(), f));
            }
        }
    }
}
thread_local! { static EXIT_FLUSH: ExitFlush = const { ExitFlush }; }

fn arm_exit_flush() {
    EXIT_FLUSH.with(|_| {});
}
fn exit_fault_of(id: std::thread::ThreadId) -> Option<String> {
    let mut g = EXIT_FAULTS.lock().ok()?;
    let pos = g.iter().position(|x| x.0 == id)?;
    Some(g.remove(pos).1)
}
fn exit_violation(plan: &IoPlan, what: String) -> Violation {
    let (ty, c) = plan.records.last().map(|r| (r.ty, r.c)).unwrap_or((crate::model::Ty::Fr, true));
    Violation {
        invariant: "serialize/8 library-usable-while-the-thread-exits".into(),
        phase: "serialize",
        step: plan.records.len(),
        ty,
        c,
        expected: "a round trip made from a thread-local destructor registered before the thread's first library call behaves as usual".into(),
        observed: what,
    }
}

// ---- watchdog: a serialize/deserialize call that never returns (a lock held across the caller's stream
// whose call-back re-enters the library) must not block the shard for ever. The process aborts; the
// driver treats that like any death by signal: replay file, re-execution in a child, verdict only on repeat.
static IO_WATCH: Mutex<Option<Instant>> = Mutex::new(None);

fn io_watch_arm() {
    static STARTED: std::sync::Once = std::sync::Once::new();
    STARTED.call_once(|| {
        let _ = std::thread::Builder::new().name("io-watchdog".into()).spawn(|| loop {
            std::thread::sleep(std::time::Duration::from_millis(500));
            let due = IO_WATCH.lock().ok().map(|g| g.map(|d| Instant::now() > d).unwrap_or(false)).unwrap_or(false);
            if due {
                eprintln!("STALL: a serialize/deserialize call never returned; aborting the shard");
                std::process::abort();
            }
        });
    });
    let secs = std::env::var("PP_SIM_STALL_SECS").ok().and_then(|v| v.parse().ok()).unwrap_or(120u64);
    *IO_WATCH.lock().unwrap() = Some(Instant::now() + std::time::Duration::from_secs(secs));
}
fn io_watch_disarm() {
    *IO_WATCH.lock().unwrap() = None;
}
fn execute_watched(p: &IoPlan, want_log: bool) -> RunResult {
    io_watch_arm();
    let r = execute(p, want_log);
    io_watch_disarm();
    r
}

/// execute the plans one after the other on one brand-new OS thread
pub fn execute_chunk(plans: &[IoPlan]) -> Vec<RunResult> {
    let joined = std::thread::scope(|s| {
        std::thread::Builder::new()
            .stack_size(1024 * 1024)
            .spawn_scoped(s, || {
                arm_exit_flush();
                (std::thread::current().id(), plans.iter().map(|p| execute_watched(p, false)).collect::<Vec<_>>())
            })
            .map(|h| h.join())
    });
    match joined.ok().and_then(|r| r.ok()) {
        Some((id, mut results)) => {
            // the thread has terminated (join waits for its thread-local destructors)
            if let Some(f) = exit_fault_of(id) {
                if let (Some(last), Some(plan)) = (results.last_mut(), plans.last()) {
                    if last.violation.is_none() {
                        last.violation = Some(exit_violation(plan, f));
                    }
                }
            }
            results
        }
        None => plans.iter().map(|p| execute(p, false)).collect(),
    }
}

pub fn execute_isolated(plan: &IoPlan, want_log: bool) -> RunResult {
    let joined = std::thread::scope(|s| {
        std::thread::Builder::new()
            .stack_size(512 * 1024)
            .spawn_scoped(s, || {
                arm_exit_flush();
                (std::thread::current().id(), execute_watched(plan, want_log))
            })
            .map(|h| h.join())
    });
    match joined.ok().and_then(|r| r.ok()) {
        Some((id, mut r)) => {
            if let Some(f) = exit_fault_of(id) {
                if r.violation.is_none() {
                    r.violation = Some(exit_violation(plan, f));
                }
            }
            r
        }
        None => execute(plan, want_log),
    }
}

pub fn fold_digests(d: &[u64]) -> u64 {
    let mut dg = crate::util::Digest::new();
    for x in d {
        dg.u64(*x);
    }
    dg.finish()
}

pub fn count_distinct(mut v: Vec<u64>) -> usize {
    v.sort_unstable();
    v.dedup();
    v.len()
}

// ---------------------------------------------------------------- minimiser

fn fails_same(plan: &IoPlan, class: &str) -> Option<Violation> {
    let r = execute_isolated(plan, false);
    match r.violation {
        Some(v) if v.class() == class => Some(v),
        _ => None,
    }
}

/// delta-debug the plan while the same violation class persists
pub fn minimise(plan: &IoPlan, viol: &Violation) -> (IoPlan, Violation, usize) {
    let class = viol.class();
    let mut cur = plan.clone();
    let mut curv = viol.clone();
    let mut tries = 0usize;
    let mut changed = true;
    while changed && tries < 20_000 {
        changed = false;
        macro_rules! attempt {
            ($cand:expr) => {{
                let cand: IoPlan = $cand;
                tries += 1;
                if cand != cur {
                    if let Some(v) = fails_same(&cand, &class) {
                        cur = cand;
                        curv = v;
                        changed = true;
                        true
                    } else {
                        false
                    }
                } else {
                    false
                }
            }};
        }
        // drop whole scripts / fault lists
        let mut c = cur.clone();
        c.wscript.clear();
        attempt!(c);
        let mut c = cur.clone();
        c.rscript.clear();
        attempt!(c);
        let mut c = cur.clone();
        c.sfaults.clear();
        attempt!(c);
        // drop trailing reads
        while cur.reads.len() > 0 {
            let mut c = cur.clone();
            c.reads.pop();
            if !attempt!(c) {
                break;
            }
        }
        // drop record i together with read i
        let mut i = 0;
        while i < cur.records.len() {
            let mut c = cur.clone();
            c.records.remove(i);
            if i < c.reads.len() {
                c.reads.remove(i);
            }
            if !attempt!(c) {
                // drop only the read
                if i < cur.reads.len() {
                    let mut c = cur.clone();
                    c.reads.remove(i);
                    attempt!(c);
                }
                i += 1;
            }
        }
        // drop storage faults one at a time
        let mut i = 0;
        while i < cur.sfaults.len() {
            let mut c = cur.clone();
            c.sfaults.remove(i);
            if !attempt!(c) {
                i += 1;
            }
        }
        // simplify scripts: truncate, then turn single actions into Full, shorts into 1-byte
        for which in 0..2 {
            loop {
                let mut c = cur.clone();
                let s = if which == 0 { &mut c.wscript } else { &mut c.rscript };
                if s.is_empty() {
                    break;
                }
                s.pop();
                if !attempt!(c) {
                    break;
                }
            }
            let n = if which == 0 { cur.wscript.len() } else { cur.rscript.len() };
            for i in 0..n {
                let mut c = cur.clone();
                let s = if which == 0 { &mut c.wscript } else { &mut c.rscript };
                if i < s.len() && s[i] != Act::Full {
                    s[i] = Act::Full;
                    attempt!(c);
                }
            }
            // remove actions (shifts later ones)
            let mut i = 0;
            loop {
                let n = if which == 0 { cur.wscript.len() } else { cur.rscript.len() };
                if i >= n {
                    break;
                }
                let mut c = cur.clone();
                let s = if which == 0 { &mut c.wscript } else { &mut c.rscript };
                s.remove(i);
                if !attempt!(c) {
                    i += 1;
                }
            }
        }
        // simpler values
        for i in 0..cur.records.len() {
            let simple = match &cur.records[i].v {
                VDesc::Fr(_) => vec![VDesc::Fr(format!("{:064x}", 1))],
                VDesc::Fq12(_) => vec![VDesc::Fq12("one".into()), VDesc::Fq12("seed:1".into())],
                VDesc::Pt { a, .. } => vec![
                    VDesc::Pt { a: format!("{:064x}", 1), z: 0, neg: false, via: 0 },
                    VDesc::Pt { a: a.clone(), z: 0, neg: false, via: 0 },
                ],
            };
            for sv in simple {
                let mut c = cur.clone();
                c.records[i].v = sv;
                if attempt!(c) {
                    break;
                }
            }
        }
    }
    (cur, curv, tries)
}

pub fn replay_json(property: &str, seed: u64, run_index: i64, source: &str, plan: &IoPlan, original: &IoPlan, v: &Violation, log: &[String]) -> J {
    J::obj()
        .set("format", J::Int(1))
        .set("property", J::s(property))
        .set("engine", J::s("io"))
        .set("seed", J::Int(seed as i64))
        .set("run_index", J::Int(run_index))
        .set("source", J::s(source))
        .set("violation", v.to_json())
        .set("plan", plan.to_json())
        .set("original_plan", original.to_json())
        .set("event_log", J::Arr(log.iter().map(|l| J::s(l)).collect()))
}

/// Re-execute the plan stored in a replay file. Returns (violation?, expected class).
pub fn replay_file(path: &str) -> Result<(Option<Violation>, String, Vec<String>), String> {
    let txt = std::fs::read_to_string(path).map_err(|e| format!("{}: {}", path, e))?;
    let j = json::parse(&txt)?;
    let plan = IoPlan::from_json(j.get("plan").ok_or("no plan")?)?;
    let want = j
        .get("violation")
        .map(|v| {
            format!(
                "{}|{}|{}",
                v.get("invariant").and_then(|x| x.as_str()).unwrap_or(""),
                v.get("type").and_then(|x| x.as_str()).unwrap_or(""),
                v.get("compressed").and_then(|x| x.as_bool()).unwrap_or(false)
            )
            .replace(' ', "_")
        })
        .unwrap_or_default();
    // optional prelude: the violation depended on process-global state left behind by earlier plans of
    // the batch; re-execute the batch prefix sequentially (one worker) before the plan
    if let Some(pre) = j.get("prelude") {
        // the violation depended on library state left behind by earlier plans: re-execute the plans
        // `from..upto` of the batch exactly as the batch did (chunks of CHUNK consecutive indices, each
        // on its own fresh thread, in order), the last chunk ending with the plan of the violation
        let source = pre.get("source").and_then(|x| x.as_str()).unwrap_or("");
        let from = pre.get("from").and_then(|x| x.as_usize()).unwrap_or(0);
        let upto = pre.get("upto").and_then(|x| x.as_usize()).unwrap_or(0);
        let seed = j.get("seed").and_then(|x| x.as_i64()).unwrap_or(1) as u64;
        let sweep_plans = if source == "sweep" { crate::io_gen::sweep(pre.get("values_per_type").and_then(|x| x.as_usize()).unwrap_or(3)).0 } else { vec![] };
        let get = |i: usize| if source == "sweep" { sweep_plans[i].clone() } else { seeded_plan(seed, i) };
        let shard = pre.get("shard").and_then(|x| x.as_usize()).unwrap_or(0);
        let of = pre.get("of").and_then(|x| x.as_usize()).unwrap_or(1).max(1);
        if pre.get("after_sweep").and_then(|x| x.as_bool()).unwrap_or(false) {
            // the search batch ran in the same process after the shard's part of the sweep
            let sp = crate::io_gen::sweep(pre.get("values_per_type").and_then(|x| x.as_usize()).unwrap_or(3)).0;
            let mut c = shard;
            while c * CHUNK < sp.len() {
                let _ = execute_chunk(&sp[c * CHUNK..((c + 1) * CHUNK).min(sp.len())]);
                c += of;
            }
        }
        // the first violation of the recorded invariant anywhere in the replayed range counts: with
        // process-global state the batch (16 workers) and this sequential re-execution need not fail at
        // the same plan
        let inv = want.split('|').next().unwrap_or("").to_string();
        let mut lo = (from / CHUNK) * CHUNK;
        while lo <= upto {
            if (lo / CHUNK) % of != shard {
                lo += CHUNK;
                continue;
            }
            let hi = (lo + CHUNK).min(upto + 1);
            let first = lo.max(from);
            let plans: Vec<IoPlan> = (first..hi).map(|i| get(i)).collect();
            let rs = execute_chunk(&plans);
            for (k, r) in rs.into_iter().enumerate() {
                if let Some(v) = r.violation {
                    if v.class().split('|').next() == Some(inv.as_str()) || inv.is_empty() {
                        let cls = v.class();
                        return Ok((Some(v), cls, vec![format!("(replayed plans {}..={} of the {} batch as the batch ran them; plan {} violates)", from, upto, source, first + k)]));
                    }
                }
            }
            lo += CHUNK;
        }
        return Ok((None, want, vec![format!("(replayed plans {}..={} of the {} batch: no violation)", from, upto, source)]));
    }
    let r = execute_isolated(&plan, true);
    Ok((r.violation, want, r.log))
}

pub fn seeded_plan(seed: u64, i: usize) -> IoPlan {
    gen_plan(mix(seed, ENGINE_ID, i as u64))
}
