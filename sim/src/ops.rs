//! Operation catalogue of Engine B/C (DESIGN §3.2.2): every operation is real library code
//! returning a bit image of its result, plus optional claims checked by the C02 oracles.

use crate::json::J;
use crate::model::{fq_be, fr_be};
use crate::refmul::{aff_mul, Aff};
use crate::spool::{spools, SPools};
use crate::tok::{self, yield_here};
use crate::util::{hash_bytes, CoreRng, Rng};
use digest::generic_array::GenericArray;
use digest::{BlockInput, ExtendableOutput, FixedOutput, Input, Reset};
use ff_zeroize::{Field, PrimeField, SqrtField};
use pairing_plus::bls12_381::{Bls12, Fq, Fq12, Fq2, Fq6, Fr, FrRepr, G1Affine, G1Prepared, G2Affine, G2Prepared, G1, G2};
use pairing_plus::hash_to_curve::HashToCurve;
use pairing_plus::hash_to_field::{hash_to_field, ExpandMsgXmd, ExpandMsgXof};
use pairing_plus::serdes::SerDes;
use pairing_plus::verif_hooks;
use pairing_plus::{CurveAffine, CurveProjective, EncodedPoint, Engine, SubgroupCheck, Wnaf};
use std::io::{Read, Write};
use std::panic::{catch_unwind, AssertUnwindSafe};
use std::sync::Mutex;

// ---------------------------------------------------------------- descriptors

#[derive(Clone, Debug, PartialEq, Eq, Hash)]
pub struct Op {
    pub k: String,
    pub a: Vec<usize>,
}
impl Op {
    pub fn new(k: &str, a: &[usize]) -> Op {
        Op { k: k.to_string(), a: a.to_vec() }
    }
    pub fn key(&self) -> String {
        let mut s = self.k.clone();
        for x in &self.a {
            s.push(' ');
            s.push_str(&x.to_string());
        }
        s
    }
    pub fn to_json(&self) -> J {
        J::s(&self.key())
    }
    pub fn from_json(j: &J) -> Result<Op, String> {
        let s = j.as_str().ok_or("op must be a string")?;
        let mut it = s.split(' ');
        let k = it.next().ok_or("empty op")?.to_string();
        let mut a = vec![];
        for t in it {
            a.push(t.parse::<usize>().map_err(|_| format!("bad op arg in {:?}", s))?);
        }
        Ok(Op { k, a })
    }
    pub fn arg(&self, i: usize) -> usize {
        self.a.get(i).copied().unwrap_or(0)
    }
}

/// what an operation asserts about its own result, for the C02 oracles
#[derive(Clone, Debug)]
pub enum Claim {
    /// the result (affine raw image) is [scalars[k]] * point p of group g
    Mul { g: u8, p: usize, k: usize, got: Vec<u8>, path: &'static str },
    /// a recommended window
    Window { w: usize, what: &'static str },
}

pub struct OpOut {
    pub image: Vec<u8>,
    pub claims: Vec<Claim>,
}

/// Claims need an affine normalisation (one field inversion) per result: computed only when
/// a C02 oracle will consume them.
pub static CLAIMS_ENABLED: std::sync::atomic::AtomicBool = std::sync::atomic::AtomicBool::new(false);
fn claims_on() -> bool {
    CLAIMS_ENABLED.load(std::sync::atomic::Ordering::Relaxed)
}

/// raised by the harness to kill a simulated thread (never by the library)
pub struct HarnessPanic;

// ---------------------------------------------------------------- images

pub trait Img {
    fn img(&self, out: &mut Vec<u8>);
}
impl Img for Fq {
    fn img(&self, out: &mut Vec<u8>) {
        out.extend_from_slice(&fq_be(self));
    }
}
impl Img for Fr {
    fn img(&self, out: &mut Vec<u8>) {
        out.extend_from_slice(&fr_be(self));
    }
}
impl Img for Fq2 {
    fn img(&self, out: &mut Vec<u8>) {
        self.c0.img(out);
        self.c1.img(out);
    }
}
impl Img for Fq6 {
    fn img(&self, out: &mut Vec<u8>) {
        self.c0.img(out);
        self.c1.img(out);
        self.c2.img(out);
    }
}
impl Img for Fq12 {
    fn img(&self, out: &mut Vec<u8>) {
        self.c0.img(out);
        self.c1.img(out);
    }
}
impl<T: Img> Img for Option<T> {
    fn img(&self, out: &mut Vec<u8>) {
        match self {
            None => out.push(0),
            Some(v) => {
                out.push(1);
                v.img(out)
            }
        }
    }
}

/// per-group glue: pools, images, reference multiplication
pub trait Grp: CurveProjective<Scalar = Fr, Engine = Bls12> + SerDes
where
    Self::Base: Img,
    Self::Affine: SerDes + SubgroupCheck,
{
    const ID: u8;
    const NAME: &'static str;
    fn aff(i: usize) -> Self::Affine;
    fn proj(i: usize) -> Self;
    fn npts() -> usize;
    fn nsub() -> usize;
    fn encs() -> &'static [(Vec<u8>, bool)];
    fn h2c(suite: usize, msg: &[u8], dst: &[u8], ro: bool) -> Self;
    fn prepared_image(a: &Self::Affine) -> Vec<u8>;
    fn b_coeff_check(_x: &Self::Base) {}
}

pub fn img_proj<G: Grp>(p: &G, out: &mut Vec<u8>)
where
    G::Base: Img,
    G::Affine: SerDes + SubgroupCheck,
{
    let (x, y, z) = p.as_tuple();
    x.img(out);
    y.img(out);
    z.img(out);
}
pub fn img_aff<G: Grp>(p: &G::Affine, out: &mut Vec<u8>)
where
    G::Base: Img,
    G::Affine: SerDes + SubgroupCheck + CurveAffine<Base = G::Base>,
{
    let (x, y) = p.as_tuple();
    x.img(out);
    y.img(out);
    out.push(p.is_zero() as u8);
}
/// canonical affine image used by claims: identity = single 0 byte, else x||y
pub fn claim_img<G: Grp>(p: &G::Affine) -> Vec<u8>
where
    G::Base: Img,
    G::Affine: SerDes + SubgroupCheck + CurveAffine<Base = G::Base>,
{
    let mut out = vec![];
    if p.is_zero() {
        out.push(0);
    } else {
        let (x, y) = p.as_tuple();
        x.img(&mut out);
        y.img(&mut out);
    }
    out
}

fn sp() -> &'static SPools {
    spools()
}

// ---- yielding hash wrappers (the Digest / ExtendableOutput type parameter is a seam)
#[derive(Clone, Default)]
pub struct YSha256(sha2::Sha256);
impl Input for YSha256 {
    fn input<B: AsRef<[u8]>>(&mut self, data: B) {
        yield_here(tok::Y_HASH, "Digest::input");
        self.0.input(data)
    }
}
impl BlockInput for YSha256 {
    type BlockSize = <sha2::Sha256 as BlockInput>::BlockSize;
}
impl FixedOutput for YSha256 {
    type OutputSize = <sha2::Sha256 as FixedOutput>::OutputSize;
    fn fixed_result(self) -> GenericArray<u8, Self::OutputSize> {
        self.0.fixed_result()
    }
}
impl Reset for YSha256 {
    fn reset(&mut self) {
        self.0.reset()
    }
}
#[derive(Clone, Default)]
pub struct YShake128(sha3::Shake128);
impl Input for YShake128 {
    fn input<B: AsRef<[u8]>>(&mut self, data: B) {
        yield_here(tok::Y_HASH, "Xof::input");
        self.0.input(data)
    }
}
impl ExtendableOutput for YShake128 {
    type Reader = <sha3::Shake128 as ExtendableOutput>::Reader;
    fn xof_result(self) -> Self::Reader {
        self.0.xof_result()
    }
}

type Xmd = ExpandMsgXmd<sha2::Sha256>;
type Xof = ExpandMsgXof<sha3::Shake128>;
type YXmd = ExpandMsgXmd<YSha256>;
type YXof = ExpandMsgXof<YShake128>;
/// digests with another block size (128 bytes) than SHA-256's
type Xmd512 = ExpandMsgXmd<sha2::Sha512>;
type Xmd384 = ExpandMsgXmd<sha2::Sha384>;

impl Grp for G1 {
    const ID: u8 = 1;
    const NAME: &'static str = "g1";
    fn aff(i: usize) -> G1Affine {
        sp().g1[i % sp().g1.len()]
    }
    fn proj(i: usize) -> G1 {
        sp().g1p[i % sp().g1p.len()]
    }
    fn npts() -> usize {
        sp().g1.len()
    }
    fn nsub() -> usize {
        sp().g1_nsub
    }
    fn encs() -> &'static [(Vec<u8>, bool)] {
        &sp().enc_g1
    }
    fn h2c(suite: usize, msg: &[u8], dst: &[u8], ro: bool) -> G1 {
        match (suite % 4, ro) {
            (0, true) => <G1 as HashToCurve<Xmd>>::hash_to_curve(msg, dst),
            (0, false) => <G1 as HashToCurve<Xmd>>::encode_to_curve(msg, dst),
            (1, true) => <G1 as HashToCurve<Xof>>::hash_to_curve(msg, dst),
            (1, false) => <G1 as HashToCurve<Xof>>::encode_to_curve(msg, dst),
            (2, true) => <G1 as HashToCurve<YXmd>>::hash_to_curve(msg, dst),
            (2, false) => <G1 as HashToCurve<YXmd>>::encode_to_curve(msg, dst),
            (_, true) => <G1 as HashToCurve<YXof>>::hash_to_curve(msg, dst),
            (_, false) => <G1 as HashToCurve<YXof>>::encode_to_curve(msg, dst),
        }
    }
    fn prepared_image(a: &G1Affine) -> Vec<u8> {
        let p: G1Prepared = a.prepare();
        format!("{:?}|{}", p, p.is_zero()).into_bytes()
    }
}
impl Grp for G2 {
    const ID: u8 = 2;
    const NAME: &'static str = "g2";
    fn aff(i: usize) -> G2Affine {
        sp().g2[i % sp().g2.len()]
    }
    fn proj(i: usize) -> G2 {
        sp().g2p[i % sp().g2p.len()]
    }
    fn npts() -> usize {
        sp().g2.len()
    }
    fn nsub() -> usize {
        sp().g2_nsub
    }
    fn encs() -> &'static [(Vec<u8>, bool)] {
        &sp().enc_g2
    }
    fn h2c(suite: usize, msg: &[u8], dst: &[u8], ro: bool) -> G2 {
        match (suite % 4, ro) {
            (0, true) => <G2 as HashToCurve<Xmd>>::hash_to_curve(msg, dst),
            (0, false) => <G2 as HashToCurve<Xmd>>::encode_to_curve(msg, dst),
            (1, true) => <G2 as HashToCurve<Xof>>::hash_to_curve(msg, dst),
            (1, false) => <G2 as HashToCurve<Xof>>::encode_to_curve(msg, dst),
            (2, true) => <G2 as HashToCurve<YXmd>>::hash_to_curve(msg, dst),
            (2, false) => <G2 as HashToCurve<YXmd>>::encode_to_curve(msg, dst),
            (_, true) => <G2 as HashToCurve<YXof>>::hash_to_curve(msg, dst),
            (_, false) => <G2 as HashToCurve<YXof>>::encode_to_curve(msg, dst),
        }
    }
    fn prepared_image(a: &G2Affine) -> Vec<u8> {
        let p: G2Prepared = a.prepare();
        let s = format!("{:?}|{}", p, p.is_zero());
        let mut o = hash_bytes(s.as_bytes()).to_le_bytes().to_vec();
        o.extend_from_slice(&(s.len() as u64).to_le_bytes());
        o.extend_from_slice(&hash_bytes(&s.as_bytes()[s.len() / 2..]).to_le_bytes());
        o
    }
}

// ---------------------------------------------------------------- seams that yield

pub struct YWriter(pub Vec<u8>);
impl Write for YWriter {
    fn write(&mut self, buf: &[u8]) -> std::io::Result<usize> {
        yield_here(tok::Y_WRITE, "Write::write");
        self.0.extend_from_slice(buf);
        Ok(buf.len())
    }
    fn flush(&mut self) -> std::io::Result<()> {
        Ok(())
    }
}
/// a caller's writer that accepts `.1` bytes in all (a short count at the boundary) and then fails
pub struct YFailWriter(pub Vec<u8>, pub usize);
impl Write for YFailWriter {
    fn write(&mut self, buf: &[u8]) -> std::io::Result<usize> {
        yield_here(tok::Y_WRITE, "Write::write");
        let room = self.1.saturating_sub(self.0.len());
        if room == 0 && !buf.is_empty() {
            return Err(std::io::Error::new(std::io::ErrorKind::Other, "simulated: the caller's writer failed"));
        }
        let n = room.min(buf.len());
        self.0.extend_from_slice(&buf[..n]);
        Ok(n)
    }
    fn flush(&mut self) -> std::io::Result<()> {
        Ok(())
    }
}
/// serialize through a caller's writer chosen by `mode`: 0-2 accept everything; 3 fails at once,
/// 4 fails after 20 bytes. Returns the bytes the writer accepted; the image records a failure.
fn ser_with<T: SerDes>(x: &T, c: bool, mode: usize, out: &mut Vec<u8>) -> Vec<u8> {
    match mode % 6 {
        3 | 4 => {
            let mut w = YFailWriter(vec![], if mode % 6 == 3 { 0 } else { 20 });
            let r = x.serialize(&mut w, c);
            out.push(if r.is_err() { 0xEE } else { 0x0C });
            w.0
        }
        _ => {
            let mut w = YWriter(vec![]);
            let _ = x.serialize(&mut w, c);
            w.0
        }
    }
}
/// `.1`: this stream's data depends on another caller thread (its first read waits for it)
pub struct YReader<'a>(pub &'a [u8], pub bool);
impl<'a> Read for YReader<'a> {
    fn read(&mut self, buf: &mut [u8]) -> std::io::Result<usize> {
        if self.1 {
            self.1 = false;
            tok::wait_for_lower_thread("Read::read waiting for data produced by another thread");
        }
        yield_here(tok::Y_READ, "Read::read");
        let n = buf.len().min(self.0.len());
        buf[..n].copy_from_slice(&self.0[..n]);
        self.0 = &self.0[n..];
        Ok(n)
    }
}
pub struct YRng(pub CoreRng);
impl rand_core::RngCore for YRng {
    fn next_u32(&mut self) -> u32 {
        yield_here(tok::Y_RNG, "RngCore::next_u32");
        self.0.next_u32()
    }
    fn next_u64(&mut self) -> u64 {
        yield_here(tok::Y_RNG, "RngCore::next_u64");
        self.0.next_u64()
    }
    fn fill_bytes(&mut self, dest: &mut [u8]) {
        yield_here(tok::Y_RNG, "RngCore::fill_bytes");
        self.0.fill_bytes(dest)
    }
    fn try_fill_bytes(&mut self, dest: &mut [u8]) -> Result<(), rand_core::Error> {
        yield_here(tok::Y_RNG, "RngCore::try_fill_bytes");
        self.0.try_fill_bytes(dest)
    }
}
pub struct YScalar(pub [u64; 4]);
impl From<YScalar> for FrRepr {
    fn from(s: YScalar) -> FrRepr {
        yield_here(tok::Y_INTO, "Into<FrRepr>::into");
        FrRepr(s.0)
    }
}
/// a scalar whose conversion itself uses the library on the same thread before it returns (a lazily
/// evaluated challenge derived from a commitment): table-driven, plain and wNAF multiplications of
/// other bases in both groups
pub struct ReenterScalar(pub [u64; 4]);
impl From<ReenterScalar> for FrRepr {
    fn from(s: ReenterScalar) -> FrRepr {
        let k = FrRepr([s.0[0] | 1, s.0[1], 0x5a5a, 0]);
        let mut t1 = vec![G1Affine::zero(); 3];
        let b1 = G1Affine::one();
        b1.precomp_3(&mut t1);
        let x1 = b1.mul_precomp_3(k, &t1);
        let mut t2 = vec![G2Affine::zero(); 3];
        let b2 = G2Affine::one();
        b2.precomp_3(&mut t2);
        let x2 = b2.mul_precomp_3(k, &t2);
        let mut y1 = G1::one();
        y1.mul_assign(k);
        let mut w = Wnaf::new();
        let z2 = w.scalar(k).base(G2::one());
        let mut y2 = G2::one();
        y2.mul_assign(k);
        assert!(x1 == y1 && x2 == y2 && z2 == y2, "a nested multiplication inside Into<FrRepr> returned a wrong point");
        FrRepr(s.0)
    }
}
/// caller code that panics inside a library call (the caller catches it and keeps using the thread)
pub struct PanicScalar;
impl From<PanicScalar> for FrRepr {
    fn from(_: PanicScalar) -> FrRepr {
        panic!("simulated: the caller's Into<FrRepr> panicked")
    }
}
/// accepts / delivers `.1` bytes, then panics
pub struct PanicWriter(pub Vec<u8>, pub usize);
impl Write for PanicWriter {
    fn write(&mut self, buf: &[u8]) -> std::io::Result<usize> {
        if self.0.len() >= self.1 {
            panic!("simulated: the caller's writer panicked");
        }
        let n = (self.1 - self.0.len()).min(buf.len()).max(1).min(buf.len());
        self.0.extend_from_slice(&buf[..n]);
        Ok(n)
    }
    fn flush(&mut self) -> std::io::Result<()> {
        Ok(())
    }
}
pub struct PanicReader<'a>(pub &'a [u8], pub usize);
impl<'a> Read for PanicReader<'a> {
    fn read(&mut self, buf: &mut [u8]) -> std::io::Result<usize> {
        if self.1 == 0 {
            panic!("simulated: the caller's reader panicked");
        }
        let n = buf.len().min(self.0.len()).min(self.1);
        buf[..n].copy_from_slice(&self.0[..n]);
        self.0 = &self.0[n..];
        self.1 -= n;
        Ok(n)
    }
}
pub struct PanicRng(pub CoreRng, pub usize);
impl rand_core::RngCore for PanicRng {
    fn next_u32(&mut self) -> u32 {
        self.next_u64() as u32
    }
    fn next_u64(&mut self) -> u64 {
        if self.1 == 0 {
            panic!("simulated: the caller's rng panicked");
        }
        self.1 -= 1;
        self.0.next_u64()
    }
    fn fill_bytes(&mut self, dest: &mut [u8]) {
        for b in dest.iter_mut() {
            *b = self.next_u64() as u8;
        }
    }
    fn try_fill_bytes(&mut self, dest: &mut [u8]) -> Result<(), rand_core::Error> {
        self.fill_bytes(dest);
        Ok(())
    }
}
pub struct PanicIter<I>(pub I, pub usize);
impl<I: Iterator> Iterator for PanicIter<I> {
    type Item = I::Item;
    fn next(&mut self) -> Option<I::Item> {
        if self.1 == 0 {
            panic!("simulated: the caller's iterator panicked");
        }
        self.1 -= 1;
        self.0.next()
    }
}
pub struct YIter<I>(pub I);
impl<I: Iterator> Iterator for YIter<I> {
    type Item = I::Item;
    fn next(&mut self) -> Option<I::Item> {
        yield_here(tok::Y_ITER, "Iterator::next");
        self.0.next()
    }
}

// ---------------------------------------------------------------- objects

/// immutable objects built once and shared by reference between all simulated threads
pub struct Shared {
    pub t3_g1: Vec<Vec<G1Affine>>,
    pub t3_g2: Vec<Vec<G2Affine>>,
    pub t256_g1: Vec<Vec<G1Affine>>,
    pub t256_g2: Vec<Vec<G2Affine>>,
}

impl Shared {
    /// Build only the entries the given operations need (Miri engine: table construction is
    /// far too slow under the interpreter to build everything). Missing entries are empty
    /// vectors / absent; the operations that would use them are not in the Miri catalogue.
    pub fn build_for(ops: &[Op]) -> Shared {
        let p = sp();
        let mut s = Shared {
            t3_g1: vec![vec![]; p.g1_nsub],
            t3_g2: vec![vec![]; p.g2_nsub],
            t256_g1: vec![],
            t256_g2: vec![],
        };
        for o in ops {
            match o.k.as_str() {
                "g1_mul3" => {
                    let i = o.arg(0) % p.g1_nsub;
                    if s.t3_g1[i].is_empty() {
                        let mut t = vec![G1Affine::zero(); 3];
                        p.g1[i].precomp_3(&mut t);
                        s.t3_g1[i] = t;
                    }
                }
                "g2_mul3" => {
                    let i = o.arg(0) % p.g2_nsub;
                    if s.t3_g2[i].is_empty() {
                        let mut t = vec![G2Affine::zero(); 3];
                        p.g2[i].precomp_3(&mut t);
                        s.t3_g2[i] = t;
                    }
                }
                _ => {}
            }
        }
        s
    }

    pub fn build(with_256: bool) -> Shared {
        let p = sp();
        let mut s = Shared { t3_g1: vec![], t3_g2: vec![], t256_g1: vec![], t256_g2: vec![] };
        for i in 0..p.g1_nsub {
            let mut t = vec![G1Affine::zero(); 3];
            p.g1[i].precomp_3(&mut t);
            s.t3_g1.push(t);
            if with_256 {
                let mut t = vec![G1Affine::zero(); 256];
                p.g1[i].precomp_256(&mut t);
                s.t256_g1.push(t);
            }
        }
        for i in 0..p.g2_nsub {
            let mut t = vec![G2Affine::zero(); 3];
            p.g2[i].precomp_3(&mut t);
            s.t3_g2.push(t);
            if with_256 {
                let mut t = vec![G2Affine::zero(); 256];
                p.g2[i].precomp_256(&mut t);
                s.t256_g2.push(t);
            }
        }
        s
    }
}

pub type Ctx<G> = Wnaf<(), Vec<G>, Vec<i64>>;
pub type ViewB<'a, G> = Wnaf<usize, &'a [G], Vec<i64>>;
pub type ViewS<'a, G> = Wnaf<usize, Vec<G>, &'a [i64]>;

/// mutable objects owned by one simulated thread and reused along its operation list
pub struct GObjs<'a, G: CurveProjective> {
    /// caller-owned output buffers for precomp_3 / precomp_256, reused along the thread's operation
    /// list (they start out holding unrelated points: the routines must overwrite every slot)
    pub tbl3: Vec<G::Affine>,
    pub tbl256: Vec<G::Affine>,
    pub ctx: Ctx<G>,
    pub raw_table: Vec<G>,
    pub raw_digits: Vec<i64>,
    pub views_b: Vec<ViewB<'a, G>>,
    pub views_s: Vec<ViewS<'a, G>>,
}
impl<'a, G: CurveProjective> GObjs<'a, G> {
    pub fn new() -> Self {
        GObjs { tbl3: vec![], tbl256: vec![], ctx: Wnaf::new(), raw_table: vec![], raw_digits: vec![], views_b: vec![], views_s: vec![] }
    }
}
pub struct ThreadObjs<'a> {
    pub o1: GObjs<'a, G1>,
    pub o2: GObjs<'a, G2>,
    /// caller-owned input buffers reused along the thread's history (a caller that formats its message
    /// and domain-separation tag into the same buffers for every call: same address, new contents)
    pub in_msg: Vec<u8>,
    pub in_dst: Vec<u8>,
    /// number of operations this thread has evaluated: the reused input buffers hand their contents to
    /// the library at byte offset `align_ctr % 8`, so the same call sees its byte-slice arguments at
    /// another alignment than its isolated evaluation did (a pure function cannot tell)
    pub align_ctr: usize,
}
impl<'a> ThreadObjs<'a> {
    pub fn new() -> Self {
        ThreadObjs { o1: GObjs::new(), o2: GObjs::new(), in_msg: Vec::with_capacity(512), in_dst: Vec::with_capacity(512), align_ctr: 0 }
    }
}
/// put `data` into the reused buffer behind `off` pad bytes; the slice to pass on is `&buf[off..]`
fn place(buf: &mut Vec<u8>, off: usize, data: &[u8]) {
    buf.clear();
    buf.resize(off, 0xA5);
    buf.extend_from_slice(data);
}

/// wNAF contexts shared between threads of one run through a lock
pub struct RunShared {
    pub sctx1: Vec<Mutex<Ctx<G1>>>,
    pub sctx2: Vec<Mutex<Ctx<G2>>>,
    /// prepared pairing inputs, built once per scenario and then shared by reference between all its
    /// threads (a fresh set per scenario: "first use" of a prepared element happens in every scenario)
    pub prep_g1: Vec<G1Prepared>,
    pub prep_g2: Vec<G2Prepared>,
}
impl RunShared {
    pub fn new(n: usize, with_prepared: bool) -> RunShared {
        let p = sp();
        RunShared {
            sctx1: (0..n).map(|_| Mutex::new(Wnaf::new())).collect(),
            sctx2: (0..n).map(|_| Mutex::new(Wnaf::new())).collect(),
            prep_g1: if with_prepared { p.g1.iter().take(p.g1_nsub).map(|x| x.prepare()).collect() } else { vec![] },
            prep_g2: if with_prepared { p.g2.iter().take(p.g2_nsub).map(|x| x.prepare()).collect() } else { vec![] },
        }
    }
    pub fn needs_prepared(ops: &[Op]) -> bool {
        ops.iter().any(|o| o.k == "miller" || o.k == "x_cb_pairing")
    }
}

pub const NUM_SCALARS_CHOICES: [usize; 16] = [0, 1, 2, 4, 8, 21, 44, 121, 274, 564, 1631, 3129, 7934, 62570, 84072, usize::MAX];

fn scalar(k: usize) -> [u64; 4] {
    sp().scalars[k % sp().scalars.len()].l
}
/// index of a scalar below 2^255 (wNAF domain): maps any index into the lt255 subset
pub fn lt255_index(k: usize) -> usize {
    let s = &sp().scalars;
    let k = k % s.len();
    if s[k].lt255 {
        k
    } else {
        // deterministic fallback into the domain
        (0..s.len()).map(|d| (k + d) % s.len()).find(|&i| s[i].lt255).unwrap()
    }
}

// ---------------------------------------------------------------- evaluation

fn field_bundle<F: Field + Img>(a: &F, b: &F, frob: usize, out: &mut Vec<u8>) {
    let mut t = *a;
    t.mul_assign(b);
    t.img(out);
    let mut t = *a;
    t.square();
    t.img(out);
    a.inverse().img(out);
    let t = a.pow([0x0123_4567_89ab_cdefu64, 0x11]);
    t.img(out);
    let mut t = *a;
    t.frobenius_map(frob);
    t.img(out);
    let mut t = *a;
    t.add_assign(b);
    t.negate();
    t.sub_assign(b);
    t.double();
    t.img(out);
}

fn group_op<'a, G: Grp>(
    name: &str,
    op: &Op,
    sh_t3: &[Vec<G::Affine>],
    sh_t256: &[Vec<G::Affine>],
    sctx: &[Mutex<Ctx<G>>],
    o: &mut GObjs<'a, G>,
    scratch: (&mut Vec<u8>, &mut Vec<u8>, usize),
    out: &mut Vec<u8>,
    claims: &mut Vec<Claim>,
) -> bool
where
    G::Base: Img,
    G::Affine: SerDes + SubgroupCheck + CurveAffine<Base = G::Base, Projective = G, Scalar = Fr, Engine = Bls12>,
{
    let a = |i: usize| op.arg(i);
    let claim = |claims: &mut Vec<Claim>, p: usize, k: usize, r: &G, path: &'static str| {
        if !claims_on() {
            return;
        }
        claims.push(Claim::Mul { g: G::ID, p: p % G::npts(), k: k % sp().scalars.len(), got: claim_img::<G>(&r.into_affine()), path });
    };
    match name {
        "arith" => {
            let p = G::proj(a(0));
            let q = G::proj(a(1));
            let qa = G::aff(a(1));
            let mut t = p;
            t.add_assign(&q);
            img_proj(&t, out);
            let mut t = p;
            t.add_assign_mixed(&qa);
            img_proj(&t, out);
            let mut t = p;
            t.double();
            img_proj(&t, out);
            let mut t = p;
            t.negate();
            img_proj(&t, out);
            let mut t = p;
            t.sub_assign(&q);
            img_proj(&t, out);
            let mut t = p;
            t.sub_assign_mixed(&qa);
            img_proj(&t, out);
            out.push((p == q) as u8);
            out.push(p.is_normalized() as u8);
        }
        "mul" => {
            let mut t = G::proj(a(0));
            t.mul_assign(FrRepr(scalar(a(1))));
            img_proj(&t, out);
            claim(claims, a(0), a(1), &t, "mul_assign");
        }
        "ymul" => {
            let mut t = G::proj(a(0));
            t.mul_assign(YScalar(scalar(a(1))));
            img_proj(&t, out);
            claim(claims, a(0), a(1), &t, "mul_assign");
        }
        "amul" => {
            let t = G::aff(a(0)).mul(FrRepr(scalar(a(1))));
            img_proj(&t, out);
            claim(claims, a(0), a(1), &t, "CurveAffine::mul");
        }
        "affine" => {
            let t = G::proj(a(0)).into_affine();
            img_aff::<G>(&t, out);
            let t2 = t.into_projective();
            img_proj(&t2, out);
        }
        "batchnorm" => {
            const BIG: [usize; 5] = [17, 64, 65, 257, 1030];
            let n = if a(1) < 6 { 1 + a(1) } else { BIG[(a(1) - 6) % BIG.len()] };
            let mut v: Vec<G> = (0..n).map(|i| G::proj(a(0) + i)).collect();
            G::batch_normalization(&mut v);
            for p in &v {
                img_proj(p, out);
            }
        }
        "random" => {
            let mut r = YRng(CoreRng(Rng::new(a(0) as u64 ^ 0x7a7a)));
            let p = G::random(&mut r);
            img_proj(&p, out);
        }
        "wnaf_bs" | "wnaf_sb" | "wnaf_bs_multi" | "wnaf_sb_multi" | "wnaf_half" | "wnaf_half_b" | "wnaf_poison" => {
            // a(0): 0 = the thread's private context, i>0 = shared context i-1 (under its lock)
            let which = a(0);
            let mut guard;
            let mut owned_recovered: Option<Ctx<G>> = None;
            let _ = &mut owned_recovered;
            let ctx: &mut Ctx<G> = if which == 0 || sctx.is_empty() {
                &mut o.ctx
            } else {
                guard = sctx[(which - 1) % sctx.len()].lock().unwrap_or_else(|e| {
                    out.extend_from_slice(b"");
                    e.into_inner()
                });
                &mut *guard
            };
            let private = which == 0 || sctx.is_empty();
            match name {
                "wnaf_bs" => {
                    let p = a(1) % G::nsub();
                    let n = NUM_SCALARS_CHOICES[a(2) % NUM_SCALARS_CHOICES.len()];
                    let k = lt255_index(a(3));
                    let r: G = ctx.base(G::proj(p), n).scalar(FrRepr(scalar(k)));
                    img_proj(&r, out);
                    claim(claims, p, k, &r, "wnaf base-then-scalar");
                }
                "wnaf_sb" => {
                    let k = lt255_index(a(1));
                    let p = a(2) % G::nsub();
                    let r: G = ctx.scalar(FrRepr(scalar(k))).base(G::proj(p));
                    img_proj(&r, out);
                    claim(claims, p, k, &r, "wnaf scalar-then-base");
                }
                "wnaf_bs_multi" => {
                    let p = a(1) % G::nsub();
                    let n = NUM_SCALARS_CHOICES[a(2) % NUM_SCALARS_CHOICES.len()];
                    let mut staged = ctx.base(G::proj(p), n);
                    for i in 3..op.a.len().max(4) {
                        if private {
                            yield_here(tok::Y_OP, "between staged wNAF calls");
                        }
                        let k = lt255_index(a(i));
                        let r: G = staged.scalar(FrRepr(scalar(k)));
                        img_proj(&r, out);
                        claim(claims, p, k, &r, "wnaf staged base, many scalars");
                    }
                }
                "wnaf_sb_multi" => {
                    let k = lt255_index(a(1));
                    let mut staged = ctx.scalar(FrRepr(scalar(k)));
                    for i in 2..op.a.len().max(3) {
                        if private {
                            yield_here(tok::Y_OP, "between staged wNAF calls");
                        }
                        let p = a(i) % G::nsub();
                        let r: G = staged.base(G::proj(p));
                        img_proj(&r, out);
                        claim(claims, p, k, &r, "wnaf staged scalar, many bases");
                    }
                }
                "wnaf_half" => {
                    // first stage only; the staged object is dropped without the second call
                    let k = lt255_index(a(1));
                    let _ = ctx.scalar(FrRepr(scalar(k)));
                    out.push(1);
                }
                "wnaf_half_b" => {
                    let p = a(1) % G::nsub();
                    let n = NUM_SCALARS_CHOICES[a(2) % NUM_SCALARS_CHOICES.len()];
                    let _ = ctx.base(G::proj(p), n);
                    out.push(1);
                }
                _ => {
                    // "wnaf_poison": die between the two stages, holding the lock if shared
                    let k = lt255_index(a(1));
                    let _staged = ctx.scalar(FrRepr(scalar(k)));
                    std::panic::panic_any(HarnessPanic);
                }
            }
        }
        "wnaf_view_b" => {
            if o.views_b.is_empty() {
                out.push(0xfe);
            } else {
                let n = o.views_b.len();
                let k = lt255_index(a(1));
                let r: G = o.views_b[a(0) % n].scalar(FrRepr(scalar(k)));
                img_proj(&r, out);
                // the base of view i is recorded by the plan; claim is added by the executor
                if claims_on() {
                    claims.push(Claim::Mul { g: G::ID, p: usize::MAX - (a(0) % n), k, got: claim_img::<G>(&r.into_affine()), path: "wnaf shared table view" });
                }
            }
        }
        "wnaf_view_s" => {
            if o.views_s.is_empty() {
                out.push(0xfe);
            } else {
                let n = o.views_s.len();
                let p = a(1) % G::nsub();
                let r: G = o.views_s[a(0) % n].base(G::proj(p));
                img_proj(&r, out);
                if claims_on() {
                    claims.push(Claim::Mul { g: G::ID, p, k: usize::MAX - (a(0) % n), got: claim_img::<G>(&r.into_affine()), path: "wnaf shared digits view" });
                }
            }
        }
        "wnaf_raw" => {
            let p = a(0) % G::nsub();
            let w = 2 + a(2) % 21;
            // (a(3) / 2) % 4: 2, 3 = a scalar whose recoding for THIS window uses the extreme digits
            // (2^w - 1, 2^w + 1: the last table slot, positive and negative; 2^w - 3: the slot before)
            let k = match (a(3) / 2) % 4 {
                2 => crate::spool::ext_index(w, a(1) % 2),
                3 => crate::spool::ext_index(w, 2),
                _ => lt255_index(a(1)),
            };
            let r: G = if a(3) % 2 == 1 {
                verif_hooks::wnaf_table(&mut o.raw_table, G::proj(p), w);
                verif_hooks::wnaf_form(&mut o.raw_digits, FrRepr(scalar(k)), w);
                verif_hooks::wnaf_exp(&o.raw_table, &o.raw_digits)
            } else {
                let mut t = vec![];
                let mut d = vec![];
                verif_hooks::wnaf_table(&mut t, G::proj(p), w);
                verif_hooks::wnaf_form(&mut d, FrRepr(scalar(k)), w);
                verif_hooks::wnaf_exp(&t, &d)
            };
            img_proj(&r, out);
            claim(claims, p, k, &r, "wnaf_table/form/exp with explicit window");
        }
        "rec_scalar" => {
            let w = G::recommended_wnaf_for_scalar(FrRepr(scalar(a(0))));
            out.extend_from_slice(&(w as u64).to_le_bytes());
            claims.push(Claim::Window { w, what: "recommended_wnaf_for_scalar" });
        }
        "rec_num" => {
            let n = match a(0) % 4 {
                0 => NUM_SCALARS_CHOICES[a(1) % NUM_SCALARS_CHOICES.len()],
                1 => a(1),
                2 => 1usize.checked_shl((a(1) % 64) as u32).unwrap_or(0).wrapping_sub(a(1) % 3),
                _ => usize::MAX - (a(1) % 1000),
            };
            let w = G::recommended_wnaf_for_num_scalars(n);
            out.extend_from_slice(&(w as u64).to_le_bytes());
            claims.push(Claim::Window { w, what: "recommended_wnaf_for_num_scalars" });
        }
        "pre3" => {
            let p = a(0) % G::nsub();
            let mut t = vec![G::Affine::zero(); 3];
            G::aff(p).precomp_3(&mut t);
            for x in &t {
                img_aff::<G>(x, out);
            }
        }
        "mul3" => {
            let p = a(0) % G::nsub();
            if sh_t3[p].is_empty() {
                out.push(0xfe);
            } else {
                let r = G::aff(p).mul_precomp_3(FrRepr(scalar(a(1))), &sh_t3[p]);
                img_proj(&r, out);
                claim(claims, p, a(1), &r, "mul_precomp_3");
            }
        }
        "mul_re" => {
            // the scalar's conversion re-enters the library (ReenterScalar): every path that takes Into<FrRepr>
            let p = a(0) % G::nsub();
            let k = lt255_index(a(1));
            let r: G = match a(2) % 4 {
                0 if !sh_t3[p].is_empty() => G::aff(p).mul_precomp_3(ReenterScalar(scalar(k)), &sh_t3[p]),
                1 if !sh_t256.is_empty() => G::aff(p).mul_precomp_256(ReenterScalar(scalar(k)), &sh_t256[p]),
                2 => G::aff(p).mul(ReenterScalar(scalar(k))),
                _ => {
                    let mut t = G::proj(p);
                    t.mul_assign(ReenterScalar(scalar(k)));
                    t
                }
            };
            img_proj(&r, out);
            claim(claims, p, k, &r, "multiplication whose scalar conversion re-enters the library");
        }
        "pre3_reuse" => {
            let p = a(0) % G::nsub();
            if o.tbl3.is_empty() {
                o.tbl3 = vec![G::aff(1); 3];
            }
            G::aff(p).precomp_3(&mut o.tbl3);
            let r = G::aff(p).mul_precomp_3(FrRepr(scalar(a(1))), &o.tbl3);
            img_proj(&r, out);
            claim(claims, p, a(1), &r, "precomp_3 into a reused buffer, then mul_precomp_3");
        }
        "pre256_reuse" => {
            let p = a(0) % G::nsub();
            if o.tbl256.is_empty() {
                o.tbl256 = vec![G::aff(2); 256];
            }
            G::aff(p).precomp_256(&mut o.tbl256);
            let r = G::aff(p).mul_precomp_256(FrRepr(scalar(a(1))), &o.tbl256);
            img_proj(&r, out);
            claim(claims, p, a(1), &r, "precomp_256 into a reused buffer, then mul_precomp_256");
        }
        "pre3_pack" | "pre256_pack" => {
            // tables of two points kept back to back in one caller buffer (the layout
            // sum_of_products_precomp_256 documents), filled back to front through open-ended
            // sub-slices: the second precomputation must write its own 3 / 256 entries only
            let n = if name == "pre3_pack" { 3 } else { 256 };
            let (pa, pb) = (a(0) % G::nsub(), a(2) % G::nsub());
            let mut buf = vec![G::aff(1); 2 * n + 5];
            if name == "pre3_pack" {
                G::aff(pb).precomp_3(&mut buf[n..]);
                G::aff(pa).precomp_3(&mut buf[..]);
            } else {
                G::aff(pb).precomp_256(&mut buf[n..]);
                G::aff(pa).precomp_256(&mut buf[..]);
            }
            let (ra, rb) = if name == "pre3_pack" {
                (G::aff(pa).mul_precomp_3(FrRepr(scalar(a(1))), &buf[..n]), G::aff(pb).mul_precomp_3(FrRepr(scalar(a(1))), &buf[n..2 * n]))
            } else {
                (G::aff(pa).mul_precomp_256(FrRepr(scalar(a(1))), &buf[..n]), G::aff(pb).mul_precomp_256(FrRepr(scalar(a(1))), &buf[n..2 * n]))
            };
            img_proj(&ra, out);
            img_proj(&rb, out);
            for x in &buf[2 * n..] {
                img_aff::<G>(x, out);
            }
            claim(claims, pa, a(1), &ra, "table at the head of a packed buffer");
            claim(claims, pb, a(1), &rb, "table behind another table filled later through an open-ended slice");
        }
        "pre256" => {
            let p = a(0) % G::nsub();
            let mut t = vec![G::Affine::zero(); 256];
            G::aff(p).precomp_256(&mut t);
            let mut tmp = vec![];
            for x in &t {
                img_aff::<G>(x, &mut tmp);
            }
            out.extend_from_slice(&hash_bytes(&tmp).to_le_bytes());
            out.extend_from_slice(&hash_bytes(&tmp[tmp.len() / 3..]).to_le_bytes());
        }
        "mul256" => {
            let p = a(0) % G::nsub();
            if sh_t256.is_empty() {
                out.push(0xfe);
            } else {
                let r = G::aff(p).mul_precomp_256(FrRepr(scalar(a(1))), &sh_t256[p]);
                img_proj(&r, out);
                claim(claims, p, a(1), &r, "mul_precomp_256");
            }
        }
        "sop" | "pip" => {
            // sizes 0..=6, then sizes around the powers of two where an implementation may switch algorithm,
            // window or (for large inputs) to internal worker threads
            const BIG: [usize; 11] = [31, 32, 33, 255, 256, 257, 1023, 1024, 1025, 1536, 4099];
            let n = if a(0) < 7 { a(0) } else { BIG[(a(0) - 7) % BIG.len()] };
            let pts: Vec<G::Affine> = (0..n).map(|i| G::aff((a(1) + i) % G::nsub())).collect();
            let ks: Vec<[u64; 4]> = (0..n).map(|i| scalar(lt255_index(a(2) + 3 * i))).collect();
            // a(2) % 3 == 1: the caller weights its bases with references into a small table of scalars, so
            // the same reference appears several times - on this thread's odd-numbered calls; on even-numbered
            // calls (the isolated evaluation is call 1) every component has its own copy of the same value
            let m = 2 + n / 5;
            let shared_refs = a(2) % 3 == 1 && n >= 3;
            let ks: Vec<[u64; 4]> = if shared_refs { (0..n).map(|i| ks[i % m]).collect() } else { ks };
            let kr: Vec<&[u64; 4]> = if shared_refs && scratch.2 % 2 == 1 { (0..n).map(|i| &ks[i % m]).collect() } else { ks.iter().collect() };
            let r = if name == "sop" { G::Affine::sum_of_products(&pts, &kr) } else { G::Affine::sum_of_products_pippinger(&pts, &kr, 1 + a(3) % 9) };
            img_proj(&r, out);
        }
        "sop256" => {
            if sh_t256.is_empty() {
                out.push(0xfe);
            } else {
                let n = 1 + a(0) % 2;
                let pts: Vec<G::Affine> = (0..n).map(|i| G::aff(1 + i)).collect();
                let ks: Vec<[u64; 4]> = (0..n).map(|i| scalar(a(1) + 5 * i)).collect();
                let kr: Vec<&[u64; 4]> = ks.iter().collect();
                let mut pre: Vec<G::Affine> = vec![];
                for i in 0..n {
                    pre.extend_from_slice(&sh_t256[1 + i]);
                }
                let r = G::Affine::sum_of_products_precomp_256(&pts, &kr, &pre);
                img_proj(&r, out);
            }
        }
        "compress" => {
            let p = G::aff(a(0) % G::nsub());
            out.extend_from_slice(p.into_compressed().as_ref());
            out.extend_from_slice(p.into_uncompressed().as_ref());
        }
        "decode" => {
            let e = G::encs();
            let (bytes, c) = &e[a(0) % e.len()];
            let checked = a(1) % 2 == 0;
            let r = if *c {
                let mut x = <G::Affine as CurveAffine>::Compressed::empty();
                x.as_mut().copy_from_slice(bytes);
                if checked {
                    x.into_affine()
                } else {
                    x.into_affine_unchecked()
                }
            } else {
                let mut x = <G::Affine as CurveAffine>::Uncompressed::empty();
                x.as_mut().copy_from_slice(bytes);
                if checked {
                    x.into_affine()
                } else {
                    x.into_affine_unchecked()
                }
            };
            match r {
                Ok(p) => {
                    out.push(1);
                    // EncodedPoint::Affine is only known to be a CurveAffine: re-encode for the image
                    out.extend_from_slice(p.into_uncompressed().as_ref());
                }
                Err(e) => {
                    out.push(0);
                    out.extend_from_slice(format!("{:?}", e).as_bytes());
                }
            }
        }
        "serdes" => {
            let c = a(1) % 2 == 1;
            if a(2) % 2 == 1 {
                let w = (ser_with(&G::proj(a(0) % G::nsub()), c, a(3), out), 0);
                out.extend_from_slice(&w.0);
                let mut r = YReader(&w.0, a(3) % 6 == 1);
                match G::deserialize(&mut r, c) {
                    Ok(p) => img_proj(&p, out),
                    Err(e) => out.extend_from_slice(format!("{:?}", e.kind()).as_bytes()),
                }
            } else {
                let w = (ser_with(&G::aff(a(0) % G::nsub()), c, a(3), out), 0);
                out.extend_from_slice(&w.0);
                let mut r = YReader(&w.0, a(3) % 6 == 1);
                match G::Affine::deserialize(&mut r, c) {
                    Ok(p) => img_aff::<G>(&p, out),
                    Err(e) => out.extend_from_slice(format!("{:?}", e.kind()).as_bytes()),
                }
            }
        }
        "h2c" | "e2c" => {
            let m = &sp().msgs[a(1) % sp().msgs.len()];
            let d = &sp().dsts[a(2) % sp().dsts.len()];
            let p = if a(3) % 2 == 1 {
                // through the caller's reused input buffers
                let off = scratch.2 % 8;
                place(scratch.0, off, m);
                place(scratch.1, (off * 5 + 3) % 8, d);
                G::h2c(a(0), &scratch.0[off..], &scratch.1[(off * 5 + 3) % 8..], name == "h2c")
            } else {
                G::h2c(a(0), m, d, name == "h2c")
            };
            img_proj(&p, out);
        }
        "insub" => {
            out.push(G::aff(a(0)).in_subgroup() as u8);
        }
        "prepare" => {
            out.extend_from_slice(&G::prepared_image(&G::aff(a(0) % G::nsub())));
        }
        "x_cb" => {
            // the caller's own code panics inside a library call; the caller catches it and carries on
            let r = catch_unwind(AssertUnwindSafe(|| {
                let mut v = vec![];
                match a(0) % 5 {
                    0 => {
                        let mut t = G::proj(a(1));
                        t.mul_assign(PanicScalar);
                        img_proj(&t, &mut v);
                    }
                    1 => {
                        let mut w = PanicWriter(vec![], a(1) % 40);
                        let _ = G::proj(1 + a(1) % 3).serialize(&mut w, a(1) % 2 == 0);
                        v.extend_from_slice(&w.0);
                    }
                    2 => {
                        let mut w = PanicWriter(vec![], 1000);
                        let _ = G::aff(1 + a(1) % 3).serialize(&mut w, a(1) % 2 == 0);
                        let mut r = PanicReader(&w.0, a(1) % 50);
                        let _ = G::Affine::deserialize(&mut r, a(1) % 2 == 0).map(|p| img_aff::<G>(&p, &mut v));
                    }
                    3 => {
                        let mut rng = PanicRng(CoreRng(Rng::new(a(1) as u64)), a(1) % 7);
                        let p = G::random(&mut rng);
                        img_proj(&p, &mut v);
                    }
                    _ => {
                        // a reader that panics in the second half of an uncompressed record
                        let mut w = PanicWriter(vec![], 1000);
                        let _ = G::proj(1 + a(1) % 3).serialize(&mut w, false);
                        let half = w.0.len() / 2;
                        let mut r = PanicReader(&w.0, half + a(1) % 3);
                        let _ = G::deserialize(&mut r, false).map(|p| img_proj(&p, &mut v));
                    }
                }
                v
            }));
            match r {
                Ok(v) => out.extend_from_slice(&v),
                Err(_) => out.extend_from_slice(b"PANIC"),
            }
        }
        "x_pip_topbit" => {
            // documented precondition violated on purpose: one scalar has bit 255 set; its position
            // among scalars with a non-zero top window varies, so the abort happens mid-pass
            let bad = a(0) % 3;
            let pts = vec![G::aff(1), G::aff(2), G::aff(3)];
            let top = [u64::MAX, u64::MAX, u64::MAX, u64::MAX >> 1];
            let mut ks = vec![top, [5u64, 0, 0, 0x4000_0000_0000_0000], top];
            ks[bad] = [1u64, 0, 0, 1 << 63];
            let kr: Vec<&[u64; 4]> = ks.iter().collect();
            let w = 1 + a(1) % 9;
            let r = catch_unwind(AssertUnwindSafe(|| G::Affine::sum_of_products_pippinger(&pts, &kr, w)));
            match r {
                Ok(p) => img_proj(&p, out),
                Err(_) => out.extend_from_slice(b"PANIC"),
            }
        }
        _ => return false,
    }
    true
}

/// Evaluate one operation. Pure harness glue: every computed value comes from library code.
pub fn eval<'a>(op: &Op, sh: &Shared, rs: &RunShared, tl: &mut ThreadObjs<'a>) -> OpOut {
    let mut out = vec![];
    let mut claims = vec![];
    let p = sp();
    let a = |i: usize| op.arg(i);
    tl.align_ctr += 1;
    if let Some(name) = op.k.strip_prefix("g1_") {
        if group_op::<G1>(name, op, &sh.t3_g1, &sh.t256_g1, &rs.sctx1, &mut tl.o1, (&mut tl.in_msg, &mut tl.in_dst, tl.align_ctr), &mut out, &mut claims) {
            return OpOut { image: out, claims };
        }
    } else if let Some(name) = op.k.strip_prefix("g2_") {
        if group_op::<G2>(name, op, &sh.t3_g2, &sh.t256_g2, &rs.sctx2, &mut tl.o2, (&mut tl.in_msg, &mut tl.in_dst, tl.align_ctr), &mut out, &mut claims) {
            return OpOut { image: out, claims };
        }
    }
    match op.k.as_str() {
        "fields_lite" => {
            // multiplication-only bundle over the whole tower (no inversions / exponentiations)
            fn lite<F: Field + Img>(a: &F, b: &F, frob: usize, out: &mut Vec<u8>) {
                let mut t = *a;
                t.mul_assign(b);
                t.img(out);
                let mut t = *a;
                t.square();
                t.img(out);
                let mut t = *a;
                t.frobenius_map(frob);
                t.img(out);
                let mut t = *a;
                t.add_assign(b);
                t.negate();
                t.sub_assign(b);
                t.double();
                t.img(out);
            }
            lite(&p.fq[a(0) % p.fq.len()], &p.fq[a(1) % p.fq.len()], 1, &mut out);
            lite(&p.fr[a(0) % p.fr.len()], &p.fr[a(1) % p.fr.len()], 1, &mut out);
            lite(&p.fq2[a(0) % p.fq2.len()], &p.fq2[a(1) % p.fq2.len()], 1, &mut out);
            lite(&p.fq6[a(0) % p.fq6.len()], &p.fq6[a(1) % p.fq6.len()], 1 + a(1) % 5, &mut out);
            lite(&p.fq12[a(0) % p.fq12.len()], &p.fq12[a(1) % p.fq12.len()], 1 + a(1) % 11, &mut out);
            let mut t = p.fq12[a(0) % p.fq12.len()];
            t.mul_by_014(&p.fq2[a(0) % p.fq2.len()], &p.fq2[a(1) % p.fq2.len()], &p.fq2[(a(0) + 1) % p.fq2.len()]);
            t.img(&mut out);
            let mut t = p.fq6[a(0) % p.fq6.len()];
            t.mul_by_01(&p.fq2[a(0) % p.fq2.len()], &p.fq2[a(1) % p.fq2.len()]);
            t.mul_by_1(&p.fq2[a(1) % p.fq2.len()]);
            t.mul_by_nonresidue();
            t.img(&mut out);
        }
        "misc" => {
            // small pure helpers of the public API that nothing else in the catalogue reaches
            use pairing_plus::signum::Signum0;
            let i = a(0);
            out.push(format!("{:?}", p.fq[i % p.fq.len()].sgn0()).len() as u8);
            out.push(format!("{:?}", p.fq2[i % p.fq2.len()].sgn0()).len() as u8);
            out.extend_from_slice(&(G1Affine::find_pippinger_window(a(1)) as u64).to_le_bytes());
            out.extend_from_slice(&(G2Affine::find_pippinger_window(a(1) * 37) as u64).to_le_bytes());
            out.extend_from_slice(&(G1Affine::find_pippinger_window_via_estimate(1 + a(1) % 5000) as u64).to_le_bytes());
            out.extend_from_slice(format!("{}|{}|{:?}", p.g1[i % p.g1_nsub], p.g2p[i % p.g2_nsub], p.fr[i % p.fr.len()]).as_bytes());
            out.extend_from_slice(format!("{}", p.fq12[i % p.fq12.len()]).as_bytes());
            out.push((G1::default() == G1::zero()) as u8);
        }
        "misc2" => {
            // the rest of the public surface (accessors, conversions, representation arithmetic,
            // formatting, direct calls of what the other operations reach only indirectly)
            use ff_zeroize::PrimeFieldRepr;
            use pairing_plus::bls12_381::{FqRepr, G1Compressed, G1Uncompressed, G2Compressed, G2Uncompressed};
            use pairing_plus::hash_to_field::{ExpandMsg, FromRO};
            use pairing_plus::map_to_curve::MapToCurve;
            use pairing_plus::signum::{Sgn0Result, Signum0};
            use std::error::Error;
            use zeroize::Zeroize;
            let i = a(1);
            let fq = |k: usize| p.fq[(i + k) % p.fq.len()];
            let fr = |k: usize| p.fr[(i + k) % p.fr.len()];
            let fq2 = |k: usize| p.fq2[(i + k) % p.fq2.len()];
            match a(0) % 10 {
                0 => {
                    // representation arithmetic (FqRepr / FrRepr)
                    let (mut x, y) = (fq(0).into_repr(), fq(1).into_repr());
                    x.add_nocarry(&y);
                    out.extend_from_slice(format!("{}|{}|{}|{}|{}|{:?}", x, x.num_bits(), x.is_odd(), x.is_even(), x.is_zero(), x.cmp(&y)).as_bytes());
                    x.sub_noborrow(&y);
                    x.div2();
                    x.shr(1 + (i % 70) as u32);
                    x.mul2();
                    x.shl(1 + (i % 130) as u32);
                    let mut w = vec![];
                    let _ = x.write_be(&mut w);
                    let _ = x.write_le(&mut w);
                    let mut z = FqRepr::default();
                    let _ = z.read_le(&w[48..]);
                    out.push((z == x) as u8);
                    let _ = z.read_be(&w[..48]);
                    out.push((z == x) as u8);
                    out.extend_from_slice(&w);
                    let (mut x, y) = (fr(0).into_repr(), fr(1).into_repr());
                    x.add_nocarry(&y);
                    x.shr((i % 200) as u32);
                    x.mul2();
                    x.sub_noborrow(&FrRepr::from(3u64));
                    x.shl((i % 9) as u32);
                    x.div2();
                    out.extend_from_slice(format!("{}|{}|{:?}|{:?}|{:?}", x, x.num_bits(), x.cmp(&y), x.as_ref(), FrRepr::from(fr(2))).as_bytes());
                    let mut w = vec![];
                    let _ = x.write_le(&mut w);
                    let mut z = FrRepr::default();
                    let _ = z.read_le(&w[..]);
                    z.as_mut()[0] ^= 1;
                    out.extend_from_slice(format!("{:?}", z).as_bytes());
                }
                1 => {
                    // PrimeField / SqrtField leftovers
                    let dec = ["0", "1", "52435875175126190479447740508185965837690552500527637822603658699938581184512", "4002409555221667393417789825735904156556882819939007885332058136124031650490837864442687629129015664037894272559786", "115792089237316195423570985008687907853269984665640564039457584007913129639936", "12x", "", "007"];
                    let d = dec[i % dec.len()];
                    Fr::from_str(d).img(&mut out);
                    Fq::from_str(d).img(&mut out);
                    Fr::multiplicative_generator().img(&mut out);
                    Fr::root_of_unity().img(&mut out);
                    Fq::multiplicative_generator().img(&mut out);
                    Fq::root_of_unity().img(&mut out);
                    out.extend_from_slice(format!("{}|{}|{}|{}|{}|{}", Fr::NUM_BITS, Fr::CAPACITY, Fr::S, Fq::NUM_BITS, Fq::CAPACITY, Fq::S).as_bytes());
                    out.extend_from_slice(format!("{:?}|{:?}|{:?}|{:?}", fr(0).legendre(), fq2(0).legendre(), fr(0).cmp(&fr(1)), fq(0).cmp(&fq(1))).as_bytes());
                    out.extend_from_slice(format!("{:?}|{}|{}", fq2(0).cmp(&fq2(1)), fr(0).is_zero(), Fr::default() == Fr::zero()).as_bytes());
                    let mut x = fq2(0);
                    x.mul_by_nonresidue();
                    x.img(&mut out);
                }
                2 => {
                    // formatting
                    out.extend_from_slice(format!("{}|{}|{}|{:?}|{:?}", fr(0), fq2(0), p.fq6[i % p.fq6.len()], p.fq6[i % p.fq6.len()], p.fq12[i % p.fq12.len()]).as_bytes());
                    let (a1, a2) = (p.g1[i % p.g1.len()], p.g2[i % p.g2.len()]);
                    out.extend_from_slice(format!("{}|{}|{:?}|{:?}|{:?}|{:?}", p.g1p[i % p.g1p.len()], a2, p.g1p[i % p.g1p.len()], p.g2p[i % p.g2p.len()], a1, a2).as_bytes());
                    out.extend_from_slice(format!("{:?}|{:?}", a1.into_compressed(), a2.into_uncompressed()).as_bytes());
                    out.extend_from_slice(format!("{:?}|{:?}", a1.into_uncompressed(), a2.into_compressed()).as_bytes());
                    for (bytes, c) in p.enc_g1.iter().skip(i % p.enc_g1.len()).take(2) {
                        let e = if *c {
                            let mut e = G1Compressed::empty();
                            if bytes.len() == G1Compressed::size() {
                                e.as_mut().copy_from_slice(bytes);
                            }
                            e.into_affine().err()
                        } else {
                            let mut e = G1Uncompressed::empty();
                            if bytes.len() == G1Uncompressed::size() {
                                e.as_mut().copy_from_slice(bytes);
                            }
                            e.into_affine().err()
                        };
                        if let Some(e) = e {
                            #[allow(deprecated)]
                            out.extend_from_slice(format!("{}|{}", e, e.description()).as_bytes());
                        }
                    }
                }
                3 => {
                    // accessors and conversions on points
                    let mut pj = G1::from(p.g1[i % p.g1.len()]);
                    let mut qj = G2::from(p.g2[i % p.g2.len()]);
                    out.push(pj.is_zero() as u8);
                    out.push(qj.is_zero() as u8);
                    {
                        let (x, y, z) = unsafe { pj.as_tuple_mut() };
                        x.img(&mut out);
                        y.img(&mut out);
                        z.img(&mut out);
                    }
                    {
                        let (x, y, z) = unsafe { qj.as_tuple_mut() };
                        x.img(&mut out);
                        y.img(&mut out);
                        z.img(&mut out);
                    }
                    pj.double();
                    qj.double();
                    let mut pa = G1Affine::from(pj);
                    let mut qa = G2Affine::from(qj);
                    {
                        let (x, y) = unsafe { pa.as_tuple_mut() };
                        x.img(&mut out);
                        y.img(&mut out);
                    }
                    {
                        let (x, y) = unsafe { qa.as_tuple_mut() };
                        x.img(&mut out);
                        y.img(&mut out);
                    }
                    out.push((G1Affine::default() == G1Affine::zero()) as u8);
                    out.push((G2Affine::default() == G2Affine::zero()) as u8);
                    out.push((G2::default() == G2::zero()) as u8);
                    out.extend_from_slice(&(G2Affine::find_pippinger_window_via_estimate(1 + i % 5000) as u64).to_le_bytes());
                    out.extend_from_slice(format!("{}|{}|{}|{}", G1Compressed::size(), G1Uncompressed::size(), G2Compressed::size(), G2Uncompressed::size()).as_bytes());
                    out.extend_from_slice(G1Compressed::from_affine(pa).as_ref());
                    out.extend_from_slice(G1Uncompressed::from_affine(pa).as_ref());
                    out.extend_from_slice(G2Compressed::from_affine(qa).as_ref());
                    out.extend_from_slice(G2Uncompressed::from_affine(qa).as_ref());
                }
                4 => {
                    // prepared elements built directly
                    out.extend_from_slice(format!("{:?}", G1Prepared::from_affine(p.g1[i % p.g1_nsub])).as_bytes());
                    out.extend_from_slice(&G2::prepared_image(&p.g2[i % p.g2_nsub]));
                    out.push(G2Prepared::from_affine(p.g2[i % p.g2_nsub]).is_zero() as u8);
                }
                5 => {
                    // zeroize
                    let (mut x, mut y, mut z) = (fq(0), fr(0), fq2(0));
                    x.zeroize();
                    y.zeroize();
                    z.zeroize();
                    x.img(&mut out);
                    y.img(&mut out);
                    z.img(&mut out);
                    let (mut a1, mut a2, mut p1, mut p2) = (p.g1[i % p.g1.len()], p.g2[i % p.g2.len()], p.g1p[i % p.g1p.len()], p.g2p[i % p.g2p.len()]);
                    a1.zeroize();
                    a2.zeroize();
                    p1.zeroize();
                    p2.zeroize();
                    out.extend_from_slice(format!("{:?}|{:?}|{:?}|{:?}", a1, a2, p1, p2).as_bytes());
                }
                6 => {
                    // hash_to_field into the scalar field; expand_message and from_ro called directly
                    let (m, d) = (&p.msgs[i % p.msgs.len()][..], &p.dsts[(i / 7) % p.dsts.len()][..]);
                    hash_to_field::<Fr, Xmd>(m, d, 1 + i % 3).iter().for_each(|x| x.img(&mut out));
                    hash_to_field::<Fr, Xof>(m, d, 1 + i % 2).iter().for_each(|x| x.img(&mut out));
                    let okm = <Xmd as ExpandMsg>::expand_message(m, d, 64 + i % 70);
                    out.extend_from_slice(&okm);
                    let okm = <Xof as ExpandMsg>::expand_message(m, d, 1 + i % 300);
                    out.extend_from_slice(&okm);
                    let okm = <Xmd as ExpandMsg>::expand_message(m, d, 128);
                    // the caller's buffer holds the bytes at an offset that changes along the thread's history
                    let off = tl.align_ctr % 8;
                    place(&mut tl.in_msg, off, &okm);
                    let okm = &tl.in_msg[off..];
                    <Fq as FromRO>::from_ro(GenericArray::from_slice(&okm[..64])).img(&mut out);
                    <Fq2 as FromRO>::from_ro(GenericArray::from_slice(&okm[..128])).img(&mut out);
                    <Fr as FromRO>::from_ro(GenericArray::from_slice(&okm[..48])).img(&mut out);
                    <Fq as pairing_plus::hash_to_field::BaseFromRO>::from_okm(GenericArray::from_slice(&okm[3..67])).img(&mut out);
                    <Fr as pairing_plus::hash_to_field::BaseFromRO>::from_okm(GenericArray::from_slice(&okm[5..53])).img(&mut out);
                }
                7 => {
                    // map_to_curve called directly
                    img_proj(&<G1 as MapToCurve<G1>>::map_to_curve(&fq(0)), &mut out);
                    img_proj(&<G1 as MapToCurve<G1>>::map2_to_curve(&fq(0), &fq(1)), &mut out);
                }
                8 => {
                    img_proj(&<G2 as MapToCurve<G2>>::map_to_curve(&fq2(0)), &mut out);
                    img_proj(&<G2 as MapToCurve<G2>>::map2_to_curve(&fq2(0), &fq2(1)), &mut out);
                }
                _ => {
                    // signum
                    out.push((fq(0).sgn0() == fq2(0).sgn0()) as u8);
                    out.extend_from_slice(format!("{:?}|{:?}", fq(0).sgn0() ^ fq2(0).sgn0(), Sgn0Result::Negative ^ fq(0).sgn0()).as_bytes());
                    let (mut x, mut y) = (fq(1), fq2(1));
                    x.negate_if(fq2(0).sgn0());
                    y.negate_if(fq(0).sgn0() ^ fq2(0).sgn0());
                    x.img(&mut out);
                    y.img(&mut out);
                }
            }
        }
        "field_random" => {
            let mut r = YRng(CoreRng(Rng::new(a(1) as u64 ^ 0x1f1f)));
            match a(0) % 5 {
                0 => Fq::random(&mut r).img(&mut out),
                1 => Fr::random(&mut r).img(&mut out),
                2 => Fq2::random(&mut r).img(&mut out),
                3 => Fq6::random(&mut r).img(&mut out),
                _ => Fq12::random(&mut r).img(&mut out),
            }
        }
        "fq_ops" => {
            let x = p.fq[a(0) % p.fq.len()];
            field_bundle(&x, &p.fq[a(1) % p.fq.len()], 1 + a(1) % 2, &mut out);
            x.sqrt().img(&mut out);
            out.push(format!("{:?}", x.legendre()).len() as u8);
        }
        "fr_ops" => {
            let x = p.fr[a(0) % p.fr.len()];
            field_bundle(&x, &p.fr[a(1) % p.fr.len()], 1, &mut out);
            x.sqrt().img(&mut out);
        }
        "fq2_ops" => {
            let x = p.fq2[a(0) % p.fq2.len()];
            field_bundle(&x, &p.fq2[a(1) % p.fq2.len()], 1 + a(1) % 2, &mut out);
            x.sqrt().img(&mut out);
            x.norm().img(&mut out);
        }
        "fq6_ops" => {
            let x = p.fq6[a(0) % p.fq6.len()];
            field_bundle(&x, &p.fq6[a(1) % p.fq6.len()], 1 + a(1) % 5, &mut out);
        }
        "fq12_ops" => {
            let x = p.fq12[a(0) % p.fq12.len()];
            field_bundle(&x, &p.fq12[a(1) % p.fq12.len()], 1 + a(1) % 11, &mut out);
            let mut t = x;
            t.conjugate();
            t.img(&mut out);
        }
        "h2f" => {
            let (m, d): (&[u8], &[u8]) = if a(5) % 2 == 1 {
                let off = tl.align_ctr % 8;
                place(&mut tl.in_msg, off, &p.msgs[a(2) % p.msgs.len()]);
                place(&mut tl.in_dst, (off * 5 + 3) % 8, &p.dsts[a(3) % p.dsts.len()]);
                (&tl.in_msg[off..], &tl.in_dst[(off * 5 + 3) % 8..])
            } else {
                (&p.msgs[a(2) % p.msgs.len()][..], &p.dsts[a(3) % p.dsts.len()][..])
            };
            let cnt = 1 + a(4) % 3;
            match (a(0) % 6, a(1) % 2) {
                (4, 0) => hash_to_field::<Fq, Xmd512>(m, d, cnt).iter().for_each(|x| x.img(&mut out)),
                (4, _) => hash_to_field::<Fq2, Xmd512>(m, d, cnt).iter().for_each(|x| x.img(&mut out)),
                (5, 0) => hash_to_field::<Fr, Xmd384>(m, d, cnt).iter().for_each(|x| x.img(&mut out)),
                (5, _) => hash_to_field::<Fq2, Xmd384>(m, d, cnt).iter().for_each(|x| x.img(&mut out)),
                (0, 0) => hash_to_field::<Fq, Xmd>(m, d, cnt).iter().for_each(|x| x.img(&mut out)),
                (0, _) => hash_to_field::<Fq2, Xmd>(m, d, cnt).iter().for_each(|x| x.img(&mut out)),
                (1, 0) => hash_to_field::<Fq, Xof>(m, d, cnt).iter().for_each(|x| x.img(&mut out)),
                (1, _) => hash_to_field::<Fq2, Xof>(m, d, cnt).iter().for_each(|x| x.img(&mut out)),
                (2, 0) => hash_to_field::<Fq, YXmd>(m, d, cnt).iter().for_each(|x| x.img(&mut out)),
                (2, _) => hash_to_field::<Fq2, YXmd>(m, d, cnt).iter().for_each(|x| x.img(&mut out)),
                (_, 0) => hash_to_field::<Fq, YXof>(m, d, cnt).iter().for_each(|x| x.img(&mut out)),
                (_, _) => hash_to_field::<Fq2, YXof>(m, d, cnt).iter().for_each(|x| x.img(&mut out)),
            }
        }
        "miller" => {
            let n = if rs.prep_g2.is_empty() || rs.prep_g1.is_empty() { 0 } else { a(0) % 4 };
            // (a(3) / 2) % 3: 1 = every pair uses the same prepared G2 element, 2 = the same prepared G1 element;
            // on this thread's odd-numbered calls as the same reference, on even-numbered calls (the isolated
            // evaluation is call 1) as equal clones - a pure function cannot tell
            let dup = (a(3) / 2) % 3;
            let (l1, l2) = (rs.prep_g1.len().max(1), rs.prep_g2.len().max(1));
            let clones1: Vec<G1Prepared> = if dup == 2 && tl.align_ctr % 2 == 0 { (0..n).map(|_| rs.prep_g1[a(1) % l1].clone()).collect() } else { vec![] };
            let clones2: Vec<G2Prepared> = if dup == 1 && tl.align_ctr % 2 == 0 { (0..n).map(|_| rs.prep_g2[a(2) % l2].clone()).collect() } else { vec![] };
            let pairs: Vec<(&G1Prepared, &G2Prepared)> = (0..n)
                .map(|t| {
                    let p1 = if dup == 2 { if clones1.is_empty() { &rs.prep_g1[a(1) % l1] } else { &clones1[t] } } else { &rs.prep_g1[(a(1) + t) % l1] };
                    let p2 = if dup == 1 { if clones2.is_empty() { &rs.prep_g2[a(2) % l2] } else { &clones2[t] } } else { &rs.prep_g2[(a(2) + t) % l2] };
                    (p1, p2)
                })
                .collect();
            let f = if a(3) % 2 == 1 { Bls12::miller_loop(YIter(pairs.iter())) } else { Bls12::miller_loop(pairs.iter()) };
            f.img(&mut out);
        }
        "finalexp" => {
            let f = p.fq12[a(0) % p.fq12.len()];
            Bls12::final_exponentiation(&f).img(&mut out);
        }
        "pairing" => {
            let f = Bls12::pairing(p.g1[a(0) % p.g1_nsub], p.g2[a(1) % p.g2_nsub]);
            f.img(&mut out);
        }
        "pairing_with" => {
            let g1 = p.g1[a(1) % p.g1_nsub];
            let g2 = p.g2[a(2) % p.g2_nsub];
            let f = if a(0) % 2 == 0 { g1.pairing_with(&g2) } else { g2.pairing_with(&g1) };
            f.img(&mut out);
        }
        "pairing_product" => {
            let f = Bls12::pairing_product(p.g1[a(0) % p.g1_nsub], p.g2[a(1) % p.g2_nsub], p.g1[a(2) % p.g1_nsub], p.g2[a(3) % p.g2_nsub]);
            f.img(&mut out);
        }
        "pairing_multi" => {
            let n = [0usize, 1, 2, 3, 9, 17][a(0) % 6];
            let ps: Vec<G1Affine> = (0..n).map(|i| p.g1[(a(1) + i) % p.g1_nsub]).collect();
            let qs: Vec<G2Affine> = (0..n).map(|i| p.g2[(a(2) + i) % p.g2_nsub]).collect();
            Bls12::pairing_multi_product(&ps, &qs).img(&mut out);
        }
        "fr_serdes" => {
            let x = p.fr[a(0) % p.fr.len()];
            let w = (ser_with(&x, true, a(1), &mut out), 0);
            out.extend_from_slice(&w.0);
            let mut r = YReader(&w.0, a(1) % 6 == 1);
            Fr::deserialize(&mut r, true).ok().img(&mut out);
        }
        "fq12_serdes" => {
            let x = p.fq12[a(0) % p.fq12.len()];
            let w = (ser_with(&x, true, a(1), &mut out), 0);
            out.extend_from_slice(&w.0);
            let mut r = YReader(&w.0, a(1) % 6 == 1);
            Fq12::deserialize(&mut r, true).ok().img(&mut out);
        }
        "x_xmd_long" => {
            let r = catch_unwind(|| hash_to_field::<Fq, Xmd>(b"m", b"d", 128 * 3));
            match r {
                Ok(v) => v.iter().for_each(|x| x.img(&mut out)),
                Err(_) => out.extend_from_slice(b"PANIC"),
            }
        }
        "x_cb_pairing" => {
            let r = catch_unwind(AssertUnwindSafe(|| {
                let mut v = vec![];
                match a(0) % 3 {
                    0 => {
                        let n = rs.prep_g1.len().min(rs.prep_g2.len());
                        let pairs: Vec<(&G1Prepared, &G2Prepared)> = (0..n).map(|t| (&rs.prep_g1[t], &rs.prep_g2[t])).collect();
                        Bls12::miller_loop(PanicIter(pairs.iter(), a(1) % 3)).img(&mut v);
                    }
                    1 => {
                        let mut w = PanicWriter(vec![], a(1) % 600);
                        let _ = p.fq12[a(1) % p.fq12.len()].serialize(&mut w, true);
                        v.extend_from_slice(&w.0);
                    }
                    _ => {
                        let mut w = PanicWriter(vec![], 1000);
                        let _ = p.fq12[a(1) % p.fq12.len()].serialize(&mut w, true);
                        let mut r = PanicReader(&w.0, a(1) % 600);
                        Fq12::deserialize(&mut r, true).ok().img(&mut v);
                    }
                }
                v
            }));
            match r {
                Ok(v) => out.extend_from_slice(&v),
                Err(_) => out.extend_from_slice(b"PANIC"),
            }
        }
        "x_multi_short" => {
            let ps = vec![p.g1[1], p.g1[2]];
            let qs = vec![p.g2[1]];
            let r = catch_unwind(|| Bls12::pairing_multi_product(&ps, &qs));
            match r {
                Ok(f) => f.img(&mut out),
                Err(_) => out.extend_from_slice(b"PANIC"),
            }
        }
        "nop" => {}
        other => {
            out.extend_from_slice(b"UNKNOWN-OP ");
            out.extend_from_slice(other.as_bytes());
        }
    }
    OpOut { image: out, claims }
}

// ---------------------------------------------------------------- reference [k]P

fn ref_mul_g1(p: usize, k: &[u64; 4]) -> Vec<u8> {
    let a = sp().g1[p];
    let pt: Aff<Fq> = if a.is_zero() {
        None
    } else {
        let (x, y) = a.as_tuple();
        Some((*x, *y))
    };
    let r = aff_mul(&pt, k);
    let mut out = vec![];
    match r {
        None => out.push(0),
        Some((x, y)) => {
            x.img(&mut out);
            y.img(&mut out);
        }
    }
    out
}
fn ref_mul_g2(p: usize, k: &[u64; 4]) -> Vec<u8> {
    let a = sp().g2[p];
    let pt: Aff<Fq2> = if a.is_zero() {
        None
    } else {
        let (x, y) = a.as_tuple();
        Some((*x, *y))
    };
    let r = aff_mul(&pt, k);
    let mut out = vec![];
    match r {
        None => out.push(0),
        Some((x, y)) => {
            x.img(&mut out);
            y.img(&mut out);
        }
    }
    out
}

/// reference image of [scalars[k]] * point p of group g (affine; identity = [0]); cached
pub fn ref_mul(g: u8, p: usize, k: usize) -> Vec<u8> {
    use std::collections::HashMap;
    use std::sync::OnceLock;
    static CACHE: OnceLock<Mutex<HashMap<(u8, usize, usize), Vec<u8>>>> = OnceLock::new();
    let c = CACHE.get_or_init(|| Mutex::new(HashMap::new()));
    if let Some(v) = c.lock().unwrap().get(&(g, p, k)) {
        return v.clone();
    }
    let kk = sp().scalars[k].l;
    let v = if g == 1 { ref_mul_g1(p, &kk) } else { ref_mul_g2(p, &kk) };
    c.lock().unwrap().insert((g, p, k), v.clone());
    v
}
