//! Minimal JSON value, writer and parser (no external crates: the harness must build
//! from the crates already locked by /repo/Cargo.lock).

use std::collections::BTreeMap;
use std::fmt::Write as _;

#[derive(Clone, Debug, PartialEq)]
pub enum J {
    Null,
    Bool(bool),
    Int(i64),
    Num(f64),
    Str(String),
    Arr(Vec<J>),
    Obj(BTreeMap<String, J>),
}

impl J {
    pub fn obj() -> J {
        J::Obj(BTreeMap::new())
    }
    pub fn set(mut self, k: &str, v: J) -> J {
        if let J::Obj(ref mut m) = self {
            m.insert(k.to_string(), v);
        }
        self
    }
    pub fn put(&mut self, k: &str, v: J) {
        if let J::Obj(ref mut m) = self {
            m.insert(k.to_string(), v);
        }
    }
    pub fn s(v: &str) -> J {
        J::Str(v.to_string())
    }
    pub fn i(v: i64) -> J {
        J::Int(v)
    }
    pub fn u(v: usize) -> J {
        J::Int(v as i64)
    }
    pub fn get(&self, k: &str) -> Option<&J> {
        match self {
            J::Obj(m) => m.get(k),
            _ => None,
        }
    }
    pub fn as_str(&self) -> Option<&str> {
        match self {
            J::Str(s) => Some(s),
            _ => None,
        }
    }
    pub fn as_i64(&self) -> Option<i64> {
        match self {
            J::Int(i) => Some(*i),
            J::Num(f) => Some(*f as i64),
            _ => None,
        }
    }
    pub fn as_usize(&self) -> Option<usize> {
        self.as_i64().map(|v| v as usize)
    }
    pub fn as_bool(&self) -> Option<bool> {
        match self {
            J::Bool(b) => Some(*b),
            _ => None,
        }
    }
    pub fn as_arr(&self) -> Option<&Vec<J>> {
        match self {
            J::Arr(a) => Some(a),
            _ => None,
        }
    }
    pub fn str_of(&self, k: &str) -> Result<&str, String> {
        self.get(k)
            .and_then(|v| v.as_str())
            .ok_or_else(|| format!("missing string field {}", k))
    }
    pub fn usize_of(&self, k: &str) -> Result<usize, String> {
        self.get(k)
            .and_then(|v| v.as_usize())
            .ok_or_else(|| format!("missing integer field {}", k))
    }
    pub fn bool_of(&self, k: &str) -> Result<bool, String> {
        self.get(k)
            .and_then(|v| v.as_bool())
            .ok_or_else(|| format!("missing bool field {}", k))
    }
    pub fn arr_of(&self, k: &str) -> Result<&Vec<J>, String> {
        self.get(k)
            .and_then(|v| v.as_arr())
            .ok_or_else(|| format!("missing array field {}", k))
    }

    pub fn to_string(&self) -> String {
        let mut s = String::new();
        self.write(&mut s);
        s
    }
    pub fn pretty(&self) -> String {
        let mut s = String::new();
        self.write_pretty(&mut s, 0);
        s
    }
    fn write(&self, out: &mut String) {
        match self {
            J::Null => out.push_str("null"),
            J::Bool(b) => out.push_str(if *b { "true" } else { "false" }),
            J::Int(i) => {
                let _ = write!(out, "{}", i);
            }
            J::Num(f) => {
                if f.is_finite() {
                    let _ = write!(out, "{}", f);
                } else {
                    out.push_str("null");
                }
            }
            J::Str(s) => esc(s, out),
            J::Arr(a) => {
                out.push('[');
                for (i, v) in a.iter().enumerate() {
                    if i > 0 {
                        out.push(',');
                    }
                    v.write(out);
                }
                out.push(']');
            }
            J::Obj(m) => {
                out.push('{');
                for (i, (k, v)) in m.iter().enumerate() {
                    if i > 0 {
                        out.push(',');
                    }
                    esc(k, out);
                    out.push(':');
                    v.write(out);
                }
                out.push('}');
            }
        }
    }
    fn is_flat(&self) -> bool {
        match self {
            J::Arr(a) => a.iter().all(|v| !matches!(v, J::Arr(_) | J::Obj(_))) && a.len() <= 24,
            J::Obj(m) => m.values().all(|v| !matches!(v, J::Arr(_) | J::Obj(_))) && m.len() <= 6,
            _ => true,
        }
    }
    fn write_pretty(&self, out: &mut String, ind: usize) {
        if self.is_flat() {
            self.write(out);
            return;
        }
        match self {
            J::Arr(a) => {
                out.push_str("[\n");
                for (i, v) in a.iter().enumerate() {
                    for _ in 0..ind + 1 {
                        out.push(' ');
                    }
                    v.write_pretty(out, ind + 1);
                    if i + 1 < a.len() {
                        out.push(',');
                    }
                    out.push('\n');
                }
                for _ in 0..ind {
                    out.push(' ');
                }
                out.push(']');
            }
            J::Obj(m) => {
                out.push_str("{\n");
                let n = m.len();
                for (i, (k, v)) in m.iter().enumerate() {
                    for _ in 0..ind + 1 {
                        out.push(' ');
                    }
                    esc(k, out);
                    out.push_str(": ");
                    v.write_pretty(out, ind + 1);
                    if i + 1 < n {
                        out.push(',');
                    }
                    out.push('\n');
                }
                for _ in 0..ind {
                    out.push(' ');
                }
                out.push('}');
            }
            _ => self.write(out),
        }
    }
}

fn esc(s: &str, out: &mut String) {
    out.push('"');
    for c in s.chars() {
        match c {
            '"' => out.push_str("\\\""),
            '\\' => out.push_str("\\\\"),
            '\n' => out.push_str("\\n"),
            '\r' => out.push_str("\\r"),
            '\t' => out.push_str("\\t"),
            c if (c as u32) < 0x20 => {
                let _ = write!(out, "\\u{:04x}", c as u32);
            }
            c => out.push(c),
        }
    }
    out.push('"');
}

pub fn parse(s: &str) -> Result<J, String> {
    let b = s.as_bytes();
    let mut p = 0usize;
    let v = pv(b, &mut p)?;
    ws(b, &mut p);
    if p != b.len() {
        return Err(format!("trailing data at {}", p));
    }
    Ok(v)
}

fn ws(b: &[u8], p: &mut usize) {
    while *p < b.len() && (b[*p] == b' ' || b[*p] == b'\n' || b[*p] == b'\r' || b[*p] == b'\t') {
        *p += 1;
    }
}

fn pv(b: &[u8], p: &mut usize) -> Result<J, String> {
    ws(b, p);
    if *p >= b.len() {
        return Err("unexpected end".into());
    }
    match b[*p] {
        b'{' => {
            *p += 1;
            let mut m = BTreeMap::new();
            ws(b, p);
            if *p < b.len() && b[*p] == b'}' {
                *p += 1;
                return Ok(J::Obj(m));
            }
            loop {
                ws(b, p);
                let k = match pv(b, p)? {
                    J::Str(s) => s,
                    _ => return Err("object key must be string".into()),
                };
                ws(b, p);
                if *p >= b.len() || b[*p] != b':' {
                    return Err(format!("expected ':' at {}", p));
                }
                *p += 1;
                let v = pv(b, p)?;
                m.insert(k, v);
                ws(b, p);
                if *p >= b.len() {
                    return Err("unexpected end in object".into());
                }
                if b[*p] == b',' {
                    *p += 1;
                    continue;
                }
                if b[*p] == b'}' {
                    *p += 1;
                    return Ok(J::Obj(m));
                }
                return Err(format!("expected ',' or '}}' at {}", p));
            }
        }
        b'[' => {
            *p += 1;
            let mut a = vec![];
            ws(b, p);
            if *p < b.len() && b[*p] == b']' {
                *p += 1;
                return Ok(J::Arr(a));
            }
            loop {
                a.push(pv(b, p)?);
                ws(b, p);
                if *p >= b.len() {
                    return Err("unexpected end in array".into());
                }
                if b[*p] == b',' {
                    *p += 1;
                    continue;
                }
                if b[*p] == b']' {
                    *p += 1;
                    return Ok(J::Arr(a));
                }
                return Err(format!("expected ',' or ']' at {}", p));
            }
        }
        b'"' => {
            *p += 1;
            let mut s = String::new();
            loop {
                if *p >= b.len() {
                    return Err("unterminated string".into());
                }
                let c = b[*p];
                *p += 1;
                match c {
                    b'"' => return Ok(J::Str(s)),
                    b'\\' => {
                        if *p >= b.len() {
                            return Err("bad escape".into());
                        }
                        let e = b[*p];
                        *p += 1;
                        match e {
                            b'n' => s.push('\n'),
                            b'r' => s.push('\r'),
                            b't' => s.push('\t'),
                            b'b' => s.push('\u{8}'),
                            b'f' => s.push('\u{c}'),
                            b'u' => {
                                if *p + 4 > b.len() {
                                    return Err("bad \\u".into());
                                }
                                let h = std::str::from_utf8(&b[*p..*p + 4]).map_err(|e| e.to_string())?;
                                let cp = u32::from_str_radix(h, 16).map_err(|e| e.to_string())?;
                                *p += 4;
                                s.push(char::from_u32(cp).unwrap_or('?'));
                            }
                            other => s.push(other as char),
                        }
                    }
                    _ => {
                        // copy raw utf-8 bytes
                        let start = *p - 1;
                        let mut end = *p;
                        while end < b.len() && b[end] != b'"' && b[end] != b'\\' {
                            end += 1;
                        }
                        s.push_str(std::str::from_utf8(&b[start..end]).map_err(|e| e.to_string())?);
                        *p = end;
                    }
                }
            }
        }
        b't' if b[*p..].starts_with(b"true") => {
            *p += 4;
            Ok(J::Bool(true))
        }
        b'f' if b[*p..].starts_with(b"false") => {
            *p += 5;
            Ok(J::Bool(false))
        }
        b'n' if b[*p..].starts_with(b"null") => {
            *p += 4;
            Ok(J::Null)
        }
        _ => {
            let start = *p;
            let mut is_f = false;
            while *p < b.len() && (b[*p] == b'-' || b[*p] == b'+' || b[*p] == b'.' || b[*p] == b'e' || b[*p] == b'E' || b[*p].is_ascii_digit()) {
                if b[*p] == b'.' || b[*p] == b'e' || b[*p] == b'E' {
                    is_f = true;
                }
                *p += 1;
            }
            let t = std::str::from_utf8(&b[start..*p]).map_err(|e| e.to_string())?;
            if t.is_empty() {
                return Err(format!("unexpected character at {}", start));
            }
            if is_f {
                t.parse::<f64>().map(J::Num).map_err(|e| e.to_string())
            } else {
                match t.parse::<i64>() {
                    Ok(i) => Ok(J::Int(i)),
                    Err(_) => t.parse::<f64>().map(J::Num).map_err(|e| e.to_string()),
                }
            }
        }
    }
}
