//! The function-entry hook of the sync-point engine (Engine B', DESIGN §3.2b), in a crate of its
//! own so that it is the one crate NOT compiled with `-Z instrument-mcount`: the library crate
//! and the harness (which holds the instantiations of the library's generic functions, e.g.
//! `mul_precomp_3::<FrRepr>` and every std generic those call) both call `mcount` on every
//! function entry; the hook and the few things it touches must not, or it would recurse.
//! In the ordinary build (no `--cfg pp_mcount`) this crate defines no `mcount` and is inert.

use std::cell::Cell;
use std::sync::OnceLock;

#[derive(Clone, Copy)]
pub struct Callbacks {
    /// if the thread's token was revoked while it slept: park until named again; returns true if it was
    pub rejoin_if_revoked: fn(*const (), usize) -> bool,
    /// is any thread currently revoked?
    pub any_revoked: fn(*const ()) -> bool,
    /// token holder: wait until threads woken by one of our unlocks have re-joined or sleep again
    pub holder_settle: fn(*const (), usize),
    /// entry of a synchronisation function: a scheduling point
    pub sync_point: fn(*const (), usize),
    /// the thread's function-entry counter reached a preemption point chosen by the plan
    pub preempt: fn(*const (), usize),
}

struct Installed {
    /// sorted, disjoint [start, end) runtime address ranges of synchronisation functions
    ranges: Vec<(usize, usize)>,
    cb: Callbacks,
}

static INSTALLED: OnceLock<Installed> = OnceLock::new();

thread_local! {
    static ACTIVE: Cell<bool> = const { Cell::new(false) };
    static IN_HOOK: Cell<bool> = const { Cell::new(false) };
    static CTX: Cell<*const ()> = const { Cell::new(std::ptr::null()) };
    static ME: Cell<usize> = const { Cell::new(0) };
    static SETTLE_WINDOW: Cell<u32> = const { Cell::new(0) };
    /// function entries seen by this simulated thread, and the next count at which it is preempted
    static ENTRIES: Cell<u64> = const { Cell::new(0) };
    static NEXT_PREEMPT: Cell<u64> = const { Cell::new(u64::MAX) };
    static PREEMPTS: std::cell::RefCell<Vec<u64>> = const { std::cell::RefCell::new(Vec::new()) };
}

/// ascending function-entry counts at which the calling simulated thread must yield
pub fn set_preempts(mut v: Vec<u64>) {
    v.sort_unstable();
    v.dedup();
    v.reverse(); // pop from the back
    let first = v.last().copied().unwrap_or(u64::MAX);
    PREEMPTS.with(|p| *p.borrow_mut() = v);
    ENTRIES.with(|e| e.set(0));
    NEXT_PREEMPT.with(|n| n.set(first));
}

pub fn instrumented() -> bool {
    cfg!(pp_mcount)
}

pub fn install(ranges: Vec<(usize, usize)>, cb: Callbacks) {
    let _ = INSTALLED.set(Installed { ranges, cb });
}

pub fn installed() -> bool {
    INSTALLED.get().is_some()
}

pub fn activate(ctx: *const (), me: usize) {
    CTX.with(|c| c.set(ctx));
    ME.with(|m| m.set(me));
    // starts paused: see resume()
    ACTIVE.with(|a| a.set(false));
}

/// run `f` (harness code that talks to the scheduler) with the hook switched off for this thread
pub fn with_hook_disabled<R>(f: impl FnOnce() -> R) -> R {
    let prev = IN_HOOK.with(|h| h.replace(true));
    let r = f();
    IN_HOOK.with(|h| h.set(prev));
    r
}

/// the hook only acts while the thread evaluates an operation (library code and the harness glue
/// around it), never while it is inside the scheduler's own code
pub fn pause() {
    ACTIVE.with(|a| a.set(false));
}
pub fn resume() {
    if cfg!(pp_mcount) && INSTALLED.get().is_some() && !CTX.with(|c| c.get()).is_null() {
        ACTIVE.with(|a| a.set(true));
    }
}

pub fn deactivate() {
    ACTIVE.with(|a| a.set(false));
    CTX.with(|c| c.set(std::ptr::null()));
}

#[cfg(pp_mcount)]
#[inline(always)]
fn is_sync_addr(r: &[(usize, usize)], ra: usize) -> bool {
    if r.is_empty() {
        return false;
    }
    let i = r.partition_point(|x| x.0 <= ra);
    i > 0 && ra < r[i - 1].1
}

/// Called on entry by every function of the instrumented crates.
#[cfg(pp_mcount)]
#[no_mangle]
#[inline(never)]
pub extern "C" fn mcount() {
    let ra: usize;
    unsafe {
        core::arch::asm!("mov {}, [rbp + 8]", out(reg) ra, options(nostack, readonly, preserves_flags));
    }
    if !ACTIVE.with(|a| a.get()) {
        return;
    }
    if IN_HOOK.with(|h| h.replace(true)) {
        return;
    }
    if let Some(inst) = INSTALLED.get() {
        let ctx = CTX.with(|c| c.get());
        if !ctx.is_null() {
            let me = ME.with(|m| m.get());
            let sync = is_sync_addr(&inst.ranges, ra);
            let n = ENTRIES.with(|e| {
                let v = e.get() + 1;
                e.set(v);
                v
            });
            if n >= NEXT_PREEMPT.with(|x| x.get()) {
                let next = PREEMPTS.with(|p| {
                    let mut p = p.borrow_mut();
                    p.pop();
                    p.last().copied().unwrap_or(u64::MAX)
                });
                NEXT_PREEMPT.with(|x| x.set(next));
                (inst.cb.preempt)(ctx, me);
            }
            if !(inst.cb.rejoin_if_revoked)(ctx, me) && (inst.cb.any_revoked)(ctx) {
                // an unlock happens inside a synchronisation function; the thread it wakes must be
                // settled before the token holder goes on: check at the next few function entries
                let w = SETTLE_WINDOW.with(|c| c.get());
                if sync || w > 0 {
                    (inst.cb.holder_settle)(ctx, me);
                    SETTLE_WINDOW.with(|c| c.set(if sync { 48 } else { w - 1 }));
                }
            }
            if sync {
                (inst.cb.sync_point)(ctx, me);
            }
        }
    }
    IN_HOOK.with(|h| h.set(false));
}
